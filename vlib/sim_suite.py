"""Simulator-level correspondence: the real System (vh sim) vs the mirrored simulator (asdriver sim),
bit-exact on times (f64 bit patterns), draws supplied by a twin Pcg64."""
import os, random, re, struct, subprocess
from .common import THOROUGH_SCALE, run_pair, VH, ENV, CORPUS, hash_text
from .shrink import shrink
from . import mc_suite

_draw_cache = {}


def draws_for(seed, n=600):
    if seed not in _draw_cache:
        p = subprocess.run([VH, "draws", str(seed), str(n)], capture_output=True, text=True, env=ENV)
        _draw_cache[seed] = p.stdout.strip()
    return _draw_cache[seed]


def fbits(x):
    return "x%016x" % struct.unpack(">Q", struct.pack(">d", x))[0]


DEFAULT = dict(mc={}, nodes=(1, 3), procs=(1, 4), p_fault=0.35, p_link=0.3, p_crash=0.25, p_skew=0.3, p_random_delay=0.5,
               ops=(6, 18), p_clock=0.15, p_rand=0.1, seeds=12)


FRAC = [fbits(x) for x in (0.1, 0.2, 0.3, 0.6, 0.7, 0.1, 0.2)]


def gen_near_ties(rng):
    """C06: timers whose due times are nearly equal doubles (0.6 + 0.2 = 0.8 but 0.7 + 0.1 = 0.7999999999999999;
    0.1 + 0.2 = 0.30000000000000004 > 0.3): each must fire exactly at set time + delay, in time order"""
    nn = rng.choice([1, 1, 2])
    nodes = [f"n{i}" for i in range(nn)]
    procs = [f"p{i}" for i in range(nn)]
    seed = rng.randrange(DEFAULT["seeds"])
    lines = [f"seed {seed}", f"draws {draws_for(seed)}"] + [f"node {n}" for n in nodes] + [f"proc {p} {n}" for p, n in zip(procs, nodes)]
    a, c, b, e = rng.choice([(0.6, 0.2, 0.7, 0.1), (0.7, 0.1, 0.6, 0.2), (0.1, 0.2, 0.3, 0.0), (0.3, 0.0, 0.1, 0.2),
                             (0.2, 0.1, 0.3, 0.0), (0.6, 0.1, 0.7, 0.0), (0.1, 0.7, 0.6, 0.2)])
    for p in procs:
        q = rng.choice(procs)
        first = [f"T:t0:{fbits(a)}", f"T:t1:{fbits(b)}"]
        rng.shuffle(first)
        lines.append(f"rule {p} 0 L:m0 0 " + " ".join(first))
        lines.append(f"rule {p} 0 T:t0 0 {rng.choice(['T', 'O'])}:t2:{fbits(c)} L:m1:=a")
        lines.append(f"rule {p} 0 T:t1 0 {rng.choice(['T', 'O'])}:t3:{fbits(e)} L:m2:=b" + (f" S:m3:=c:{q}" if rng.random() < 0.4 else ""))
        lines.append(f"rule {p} 0 T:t2 0 L:m4:=x")
        lines.append(f"rule {p} 0 T:t3 0 L:m5:=y")
        lines.append(f"rule {p} 0 M:m3 0 L:m6:=z")
    lines.append(f"net delay {rng.choice([0, 1, fbits(0.1)])}")
    for p in procs:
        lines.append(f"local {p} m0 =go")
    lines.append(rng.choice(["steps 12", "until_none", f"for {fbits(0.8)}\nsteps 8", "steps 3\nsteps 9"]))
    lines = "\n".join(lines).split("\n")
    for p in procs:
        lines.append(f"read {p}")
    lines.append("obs")
    return lines


def gen_scenario(rng, prof=None):
    prof = dict(DEFAULT, **(prof or {}))
    mprof = mc_suite.profile(**dict(dict(nodes=prof["nodes"], procs=prof["procs"], locals=(1, 3), p_fault=0, p_link=0, p_crash=0, p_mode=0),
                                    **prof.get("mc", {})))
    base = mc_suite.gen_scenario(rng, mprof)
    topo = [l for l in base if l.startswith(("node", "proc"))]
    rules = [l for l in base if l.startswith("rule")]
    locals_ = [l[3:] for l in base if l.startswith("cb local")]
    # sprinkle clock / random reads into some rules
    rules2 = []
    rules = mc_suite.make_terminating(rules)
    for r in rules:
        if rng.random() < prof["p_clock"]:
            r += f" K:m{rng.randint(0, 2)}"
        if rng.random() < prof["p_rand"]:
            r += f" R:m{rng.randint(0, 2)}"
        rules2.append(r)
    if rng.random() < prof.get("p_frac_timers", 0.2):
        # timer delays that are no multiples of 0.5: due times that differ in the last bits only (0.6 + 0.2 vs 0.7 + 0.1)
        rules2 = [re.sub(r"\b([TO]:t\d+):(\d+)\b", lambda m: f"{m.group(1)}:{rng.choice(FRAC)}", r) for r in rules2]
    nodes = [l.split()[1] for l in topo if l.startswith("node")]
    procs = [(l.split()[1], l.split()[2], " rec" if l.endswith("rec") else "") for l in topo if l.startswith("proc")]
    seed = rng.randrange(prof["seeds"])
    lines = [f"seed {seed}", f"draws {draws_for(seed)}"]
    lines += [l for l in topo if l.startswith("node")]
    lines += [l for l in topo if l.startswith("proc")]
    lines += rules2
    if rng.random() < prof["p_random_delay"]:
        a = rng.choice([0, 1, 2]); b = a + rng.choice([1, 2, 5])
        lines.append(f"net delays {a} {b}")
    elif rng.random() < 0.5:
        lines.append(f"net delay {rng.choice([0, 1, 3])}")
    if rng.random() < 0.2:
        # the delay settings are changed again: the later call decides (fixed after random, random after fixed)
        lines.append(rng.choice([f"net delay {rng.choice([0, 2])}", f"net delays {rng.choice([0, 1])} {rng.choice([2, 4])}"]))
    for k in ("drop", "dupl", "corrupt"):
        if rng.random() < prof["p_fault"]:
            lines.append(f"net {k} {rng.choice([fbits(0.5), fbits(0.25), '2', '0', fbits(0.9)])}")
    for n in nodes:
        if rng.random() < prof["p_skew"]:
            lines.append(f"skew {n} {rng.choice([1, 3, fbits(0.125), 10, fbits(-0.5), fbits(-2.0), fbits(-0.125)])}")
    crashed = set()
    ops = []
    pending_locals = list(locals_)
    nops = rng.randint(*prof["ops"])
    for _ in range(nops):
        r = rng.random()
        alive = [p for p in procs if p[1] not in crashed]
        if r < 0.22 and alive:
            p = rng.choice(alive)
            if pending_locals and rng.random() < 0.7:
                l = pending_locals.pop(0)
                tgt = l.split()[1]
                if any(q[0] == tgt for q in alive):
                    ops.append(l); continue
            ops.append(f"local {p[0]} m{rng.randint(0, 2)} {rng.choice(['=a', '=b', chr(61) + chr(34) + 'x' + chr(34)])}")
        elif r < 0.40:
            ops.append("step")
        elif r < 0.50:
            ops.append(f"steps {rng.randint(0, 4)}")
        elif r < 0.58:
            ops.append(f"for {rng.choice([0, 1, 2, 3, 7, fbits(0.75)])}")
        elif r < 0.63 and alive:
            ops.append(f"until_local {rng.choice(alive)[0]}")
        elif r < 0.66 and alive:
            ops.append(f"until_local_max {rng.choice(alive)[0]} {rng.randint(0, 4)}")
        elif r < 0.68 and alive:
            ops.append(f"until_local_timeout {rng.choice(alive)[0]} {rng.choice([0, 1, 2, 3, 6, fbits(0.75)])}")
        elif r < 0.72 and alive:
            ops.append(f"read {rng.choice(alive)[0]}")
        elif r < 0.74 and alive:
            ops.append(f"roundtrip {rng.choice(alive)[0]}")
        elif r < 0.74 + prof["p_crash"] * 0.5 and len(nodes) > 1:
            n = rng.choice(nodes)
            if n in crashed and rng.random() < 0.3:
                # crashing a node that is already down is legal: it discards again whatever was sent to it meanwhile
                ops.append(f"crash {n}")
            elif n in crashed:
                ops.append(f"recover {n}")
                crashed.discard(n)
                for k, p in enumerate(procs):
                    if p[1] == n and rng.random() < 0.8:
                        # usually on the same node; sometimes the process is re-created elsewhere (failover)
                        others = [x for x in nodes if x != n and x not in crashed]
                        if others and rng.random() < 0.3:
                            procs[k] = (p[0], rng.choice(others), p[2])
                        ops.append(f"proc {procs[k][0]} {procs[k][1]}{procs[k][2]}")
            elif len(crashed) + 1 < len(nodes):
                ops.append(f"crash {n}"); crashed.add(n)
        elif r < 0.74 + prof["p_crash"] * 0.5 + prof["p_link"] * 0.5 and len(nodes) > 1:
            a, b = rng.sample(nodes, 2)
            ops.append("net " + rng.choice([f"drop_in {a}", f"pass_in {a}", f"drop_out {a}", f"pass_out {a}",
                                            f"disconnect {a}", f"connect {a}", f"disable {a} {b}", f"enable {a} {b}",
                                            f"partition {a} / {b}", "reset",
                                            f"drop {rng.choice(['0', '2', fbits(0.5)])}", f"dupl {rng.choice(['0', fbits(0.5)])}",
                                            f"corrupt {rng.choice(['0', fbits(0.5)])}", f"delay {rng.choice([0, 1, 2])}",
                                            f"delays {rng.choice([0, 1])} {rng.choice([2, 3, 5])}"]))
        elif r < 0.97:
            ops.append("step")
        else:
            ops.append("obs")
    lines += ops
    lines += ["until_none", "obs"]
    return lines


def gen_link_matrix(rng):
    """C05: random link-control operations, then every process sends to every other one, in both directions"""
    nn = rng.choice([2, 3, 3])
    nodes = [f"n{i}" for i in range(nn)]
    procs = [f"p{i}" for i in range(nn + rng.choice([0, 1]))]
    loc = {p: nodes[i % nn] for i, p in enumerate(procs)}
    seed = rng.randrange(DEFAULT["seeds"])
    lines = [f"seed {seed}", f"draws {draws_for(seed)}"] + [f"node {n}" for n in nodes] + [f"proc {p} {loc[p]}" for p in procs]
    for p in procs:
        sends = " ".join(f"S:m1:=x{p[1]}:{q}" for q in procs if q != p)
        lines.append(f"rule {p} 0 L:m0 0 {sends}")
        lines.append(f"rule {p} 0 M:m1 0 L:m2:$")
    lines.append(f"net delay {rng.choice([1, 2])}")
    rounds = rng.randint(1, 3)
    for _ in range(rounds):
        for _ in range(rng.randint(1, 6)):
            a, b = rng.sample(nodes, 2)
            lines.append("net " + rng.choice([f"disable {a} {b}", f"enable {a} {b}", f"enable {b} {a}", f"disable {b} {a}",
                                             f"partition {a} / {b}", f"partition {a} / {' '.join(x for x in nodes if x != a)}",
                                             f"partition {' '.join(x for x in nodes if x != b)} / {b}",
                                             f"drop_in {a}", f"pass_in {a}", f"drop_out {a}", f"pass_out {a}",
                                             f"disconnect {a}", f"connect {a}", "reset"]))
        if rng.random() < 0.3:
            # a node goes down and comes back with its processes: the link controls in force are not touched by that
            n = rng.choice(nodes)
            lines += [f"crash {n}", f"recover {n}"] + [f"proc {p} {n}" for p in procs if loc[p] == n]
        for p in procs:
            lines.append(f"local {p} m0 =go")
        lines.append("steps 40")
        for p in procs:
            lines.append(f"read {p}")
    lines.append("obs")
    return lines


def gen_dup_corrupt(rng):
    """C05: duplication and corruption together, with payloads on which the corruption function is not idempotent (JSON arrays
    of strings; `"a"b"`): every copy of a send carries the payload sent or its one canonical corruption, whatever happened to the other copies"""
    seed = rng.randrange(DEFAULT["seeds"])
    lines = [f"seed {seed}", f"draws {draws_for(seed)}", "node n0", "node n1", "proc p0 n0", "proc p1 n1 rec"]
    # (no colons: the colon separates the fields of an action in the scenario language)
    pay = rng.sample(['=["k","v"]', '=["key","k1","value","ping"]', '="a"b"', '=x"y"z"w"', '=["a","b"]', '="a""b"', '=[["a"],["b","c"]]'], 3)
    sends = " ".join(f"S:m{j + 1}:{pay[j]}:p1" for j in range(3))
    lines += [f"rule p0 0 L:m0 0 {sends}", "rule p1 0 M:m1 0 L:m4:$", "rule p1 0 M:m2 0 L:m4:$", "rule p1 0 M:m3 0 L:m4:$"]
    lines += [f"net delays {rng.choice([0, 1])} {rng.choice([2, 3])}", f"net dupl {rng.choice(['2', fbits(0.75)])}",
              f"net corrupt {rng.choice(['2', fbits(0.5), fbits(0.75)])}"]
    for _ in range(rng.randint(1, 3)):
        lines += ["local p0 m0 =go", rng.choice(["steps 4", "steps 12", "until_none"])]
    lines += ["until_none", "read p1", "obs"]
    return lines


def time_laws_probe(v, tier, seed, name="time_laws_f64"):
    """The simulator theorems assume `LawfulTime T`; they are proved for `Ticks` and *trusted* for `f64`.  This probe samples the
    laws on IEEE doubles (Python floats are the same type, round-to-nearest): totality/transitivity of <=, a <= a + d for d >= 0,
    monotonicity of + in each argument, lo <= lo + r*(hi-lo) <= hi for 0 <= r < 1 (also with the send time added), 1 <= ceil(2r)+1 <= 3.
    It also counts how often the law R5 needs in addition, c + (t - c) = t, fails (finding D16).  Nothing here depends on /repo."""
    import math
    rng = random.Random(seed * 65537 + 5)
    n = 100000 if tier == "quick" else 2000000
    fails, d16 = {}, 0
    def bad(k):
        fails[k] = fails.get(k, 0) + 1
    for _ in range(n):
        a, b, c = (rng.choice([0.0, 0.5, 1.0, 2.5, rng.random() * 100, rng.random()]) for _ in range(3))
        d = rng.choice([0.0, 0.5, rng.random() * 10])
        r = rng.random() if rng.random() < 0.8 else math.nextafter(1.0, 0.0)
        lo, hi = min(a, b), max(a, b)
        if not (a <= b or b <= a): bad("le_total")
        if a <= b and b <= c and not a <= c: bad("le_trans")
        if not a <= a + d: bad("le_add")
        if b <= c and not a + b <= a + c: bad("add_mono")
        if a <= b and not a + c <= b + c: bad("add_mono_left")
        x = lo + r * (hi - lo)
        if not lo <= x <= hi: bad("scale_bounds")
        if not c + lo <= c + x <= c + hi: bad("arrival_bounds")
        if not 1 <= math.ceil(2 * r) + 1 <= 3: bad("copies_bounds")
        if lo + (hi - lo) != hi: d16 += 1
    v.coverage.setdefault(name, {}).update({"samples": n, "law_failures": fails, "add_sub_failures_D16": d16,
        "rule": "random IEEE doubles from the ranges the scenarios use; LawfulTime laws must never fail; c+(t-c)=t is counted only"})
    if fails:
        v.violation(f"{name}.txt", f"# the time laws the simulator theorems assume fail on IEEE doubles: {fails}\n", no_input=True)
        return 1
    return 0


def gen_crash_burst(rng):
    """several processes of one node send bursts of messages (and set timers), then the node is crashed while they are in flight;
    later it is recovered and the rest of the system continues"""
    nn = rng.choice([2, 3])
    nodes = [f"n{i}" for i in range(nn)]
    procs = [f"p{i}" for i in range(nn + rng.choice([1, 2, 3]))]
    loc = {p: nodes[i % nn] for i, p in enumerate(procs)}
    seed = rng.randrange(DEFAULT["seeds"])
    lines = [f"seed {seed}", f"draws {draws_for(seed)}"] + [f"node {n}" for n in nodes] + [f"proc {p} {loc[p]}" for p in procs]
    for p in procs:
        k = rng.randint(2, 5)
        sends = " ".join(f"S:m{rng.randint(1, 2)}:=x{p[1]}{j}:{rng.choice(procs)}" for j in range(k))
        timers = " ".join(f"T:t{j}:{rng.randint(1, 4)}" for j in range(rng.randint(0, 2)))
        lines.append(f"rule {p} 0 L:m0 0 {sends} {timers}".rstrip())
        lines.append(f"rule {p} 0 M:m1 0 L:m3:$")
        lines.append(f"rule {p} 0 M:m2 0 S:m1:$:{rng.choice(procs)}")
        lines.append(f"rule {p} 0 T:t0 0 L:m4:=t")
    a = rng.choice([1, 2]); lines.append(f"net delays {a} {a + rng.choice([1, 3])}")
    if rng.random() < 0.3:
        lines.append(f"net dupl {fbits(0.5)}")
    down = set()
    for _ in range(rng.randint(1, 2)):
        up = [p for p in procs if loc[p] not in down]
        for p in rng.sample(up, rng.randint(1, len(up))):
            lines.append(f"local {p} m0 =go")
        if rng.random() < 0.5:
            lines.append(rng.choice(["step", "steps 2"]))
        live = [n for n in nodes if n not in down]
        if len(live) < 2:
            break
        n = rng.choice(live)
        lines += [f"crash {n}", "steps 3"]
        down.add(n)
        if rng.random() < 0.4:
            # the others keep sending to the crashed node; a second crash_node discards that too
            for p in [q for q in procs if loc[q] not in down][:2]:
                lines.append(f"local {p} m0 =go")
            lines += [rng.choice(["step", "steps 2"]), f"crash {n}"]
        if rng.random() < 0.6:
            down.discard(n)
            lines.append(f"recover {n}")
            for p in procs:
                if loc[p] == n:
                    others = [x for x in nodes if x != n and x not in down]
                    if others and rng.random() < 0.3:
                        loc[p] = rng.choice(others)      # failover: the process comes back on another node
                    lines.append(f"proc {p} {loc[p]}")
        lines.append("steps 6")
    lines.append("obs")
    return lines


def gen_two_down(rng):
    """C08: two nodes are down at the same time.  A live node sends to a node that is already down and then crashes itself while
    that message is in flight; the first node comes back (with its process) before the arrival time: nothing the crashed sender
    had in flight is ever delivered, to anybody"""
    seed = rng.randrange(DEFAULT["seeds"])
    lines = [f"seed {seed}", f"draws {draws_for(seed)}", "node n0", "node n1", "node n2", "proc p0 n0", "proc p1 n1 rec", "proc p2 n2 rec"]
    for p, others in (("p0", ("p1", "p2")), ("p1", ("p0", "p2")), ("p2", ("p0", "p1"))):
        lines.append(f"rule {p} 0 L:m0 0 S:m1:=x{p[1]}:{others[0]} S:m1:=y{p[1]}:{others[1]}")
        lines.append(f"rule {p} 0 M:m1 0 L:m3:$")
    lines.append(rng.choice(["net delay 4", "net delays 3 5", "net delay 6"]))
    b, a = rng.sample(["n0", "n1", "n2"], 2)
    pa, pb = "p" + a[1], "p" + b[1]
    lines.append(f"crash {b}")
    lines.append(f"local {pa} m0 =go")
    if rng.random() < 0.3:
        c = ({"n0", "n1", "n2"} - {a, b}).pop()
        lines.append(f"local p{c[1]} m0 =go")
    lines.append(f"crash {a}")
    lines += [f"recover {b}", f"proc {pb} {b} rec"]
    if rng.random() < 0.4:
        lines += [f"recover {a}", f"proc {pa} {a}"]
    lines += ["steps 8", "until_none", "obs"]
    return lines


def gen_skew_recover(rng):
    """C06: nodes with clock skews whose processes report `ctx.time()` from every kind of handler, before a crash and after
    recovery + re-adding the process"""
    nn = rng.choice([1, 2, 3])
    nodes = [f"n{i}" for i in range(nn)]
    procs = [f"p{i}" for i in range(nn + rng.choice([0, 1]))]
    loc = {p: nodes[i % nn] for i, p in enumerate(procs)}
    seed = rng.randrange(DEFAULT["seeds"])
    lines = [f"seed {seed}", f"draws {draws_for(seed)}"] + [f"node {n}" for n in nodes] + [f"proc {p} {loc[p]}" for p in procs]
    for p in procs:
        q = rng.choice(procs)
        lines.append(f"rule {p} 0 L:m0 0 K:m1 T:t0:{rng.randint(1, 4)} S:m2:=a:{q}")
        lines.append(f"rule {p} 0 T:t0 0 K:m3")
        lines.append(f"rule {p} 0 M:m2 0 K:m4")
    for n in nodes:
        if rng.random() < 0.8:
            lines.append(f"skew {n} {rng.choice([1, 3, fbits(0.125), 10])}")
    lines.append(f"net delay {rng.choice([1, 2])}")
    for _ in range(rng.randint(1, 2)):
        for p in rng.sample(procs, rng.randint(1, len(procs))):
            lines.append(f"local {p} m0 =go")
        lines.append(f"steps {rng.randint(1, 6)}")
        n = rng.choice(nodes)
        if nn > 1 or rng.random() < 0.5:
            lines += [f"crash {n}", rng.choice(["step", "steps 2", "for 1"]), f"recover {n}"]
            for p in procs:
                if loc[p] == n:
                    lines.append(f"proc {p} {n}")
            if rng.random() < 0.3:
                lines.append(f"skew {n} {rng.choice([1, 5])}")
        for p in procs:
            lines.append(f"local {p} m0 =go")
        lines.append("steps 8")
        for p in procs:
            lines.append(f"read {p}")
    lines.append("obs")
    return lines


def block(name, lines):
    return f"begin {name}\n" + "".join(l + "\n" for l in lines) + "end\n"


def compare(impl, model):
    impl = [l for l in impl if not l.startswith("PANIC ")]      # panic messages are for the monitors
    if impl and impl[0].endswith("-timeout"):
        return "the implementation did not finish this scenario (no output within the stall limit)"
    if model and model[0].endswith("-timeout"):
        return ("the Lean model did not finish this scenario within the stall limit: its exploration is far larger than the "
                f"implementation's ({sum(1 for l in impl if l.startswith('E '))} evaluated states)")
    for i, (a, b) in enumerate(zip(impl, model)):
        if a != b:
            return f"observation line {i} differs:\n#   impl:  {a[:700]}\n#   model: {b[:700]}"
    if len(impl) != len(model):
        return f"number of observation lines differs: impl {len(impl)} model {len(model)}"
    return None


def mech(lines, impl):
    text = "\n".join(impl)
    return {
        "crash": any(l.startswith("crash") for l in lines), "recover": any(l.startswith("recover") for l in lines),
        "dropped": "MD(" in text, "received": "MR(" in text, "timers_fired": "TF(" in text,
        "timer_cancelled": "TC(" in text, "faults_on": any(re.match(r"net (drop|dupl|corrupt) (?!0$)", l) for l in lines),
        "links": any(re.match(r"net (drop_in|drop_out|disable|partition|disconnect)", l) for l in lines),
        "random_delays": any(l.startswith("net delays") for l in lines), "skew": any(l.startswith("skew") for l in lines),
        "panic": "ret=panic" in text,
    }


def run(v, tier, seed, prof=None, n_quick=400, n_thorough=20000, name="sim_suite", nontrivial=lambda st: st["received"],
        monitor=None, corpus=("sim",), extra=None):
    import zlib
    rng = random.Random(seed * 104729 + zlib.crc32(name.encode()) % 997)    # (str hash() differs from process to process)
    scen = []
    for c in corpus:
        scen += mc_suite.corpus_scenarios(c)
    for i in range(n_quick if tier == "quick" else n_thorough * THOROUGH_SCALE):
        scen.append((f"s{i}", gen_scenario(rng, prof)))
    if extra:
        scen += extra(rng, tier)
    impl, model = run_pair("sim", [block(n, l) for n, l in scen])
    hist, nontriv, bad, monfail = {}, set(), [], []
    nlines = 0
    for nm, lines in scen:
        a, b = impl.get(nm, []), model.get(nm, [])
        st = mech(lines, a)
        for k, val in st.items():
            if val: hist[k] = hist.get(k, 0) + 1
        nlines += len(a)
        if nontrivial(st):
            nontriv.add(hash_text("\n".join(lines)))
        d = compare(a, b)
        if d:
            bad.append((nm, lines, d))
        if monitor:
            m = monitor(lines, a)
            if m:
                monfail.append((nm, lines, m))
    cov = v.coverage.setdefault(name, {})
    cov.update({
        "programs": len(scen), "evaluations": nlines, "distinct_nontrivial": len(nontriv), "mechanisms_hit": hist,
        "rule": "generated simulations (topology, script processes incl. clock/random reads, delays fixed or random, "
                "rates, skews, link operations, crash/recover/re-add, all stepping calls, reads) executed by the real "
                "System and by the Lean model with the same draw stream; compared after every API call: return value, "
                "clock (bit-exact), trace entries added; full dump (event logs, outboxes, counters, queue) at `obs`",
        "disagreements_checked": len(bad), "monitor_failures": len(monfail),
        "samples": [{"scenario": nm, "lines": [l for l in ls if not l.startswith("draws")]} for nm, ls in scen[:1] + scen[-1:]],
        "corpus_replayed": sum(len(mc_suite.corpus_scenarios(c)) for c in corpus),
    })
    return scen, impl, model, bad, monfail


def report(v, bad, monfail, name, monitor=None):
    for nm, lines, m in monfail[:3]:
        def fails(ls):
            i, _ = run_pair("sim", [block("x", ls)], jobs=1, stall=20)
            return monitor(ls, i.get("x", [])) is not None
        small = shrink(lines, fails, keep=lambda l: l.startswith(("seed", "draws", "node")), budget=150)
        i, _ = run_pair("sim", [block("x", small)], jobs=1, stall=20)
        mm = monitor(small, i.get("x", [])) or m
        v.violation(f"{name}-monitor-{nm}.txt".replace(":", "_"),
                    f"# property {v.pid}: the implementation's own observations violate the property\n# {mm}\n"
                    f"# scenario {nm} (shrunk); replay: /verif/check {v.pid} --replay <this file>\n" + "".join(l + "\n" for l in small))
    def cmp_obs(i, m):
        # the same projection as the suites' own comparison: the model's reference lines (vres/V/R) and the collected
        # states' C lines are not observations of the implementation run
        a = [l for l in i.get("x", []) if not l.startswith("C ")]
        b = [l for l in m.get("x", []) if not l.startswith(("vres=", "V ", "R ", "C "))]
        if any("result=capped" in l for l in a):
            return None
        return compare(a, b)
    for nm, lines, d in bad[:3]:
        def fails(ls):
            i, m = run_pair("sim", [block("x", ls)], jobs=1, stall=20)
            return cmp_obs(i, m) is not None
        small = shrink(lines, fails, keep=lambda l: l.startswith(("seed", "draws", "node")), budget=150)
        i, m = run_pair("sim", [block("x", small)], jobs=1, stall=20)
        dd = cmp_obs(i, m) or d
        concrete = monitor(small, i.get("x", [])) if monitor else None
        v.violation(f"{name}-{nm}.txt".replace(":", "_"),
                    f"# property {v.pid}: the real simulator deviates from the Lean model ({name})\n# correspondence broken: {dd}\n"
                    + (f"# monitor on the implementation's own output: {concrete}\n" if concrete else
                       "# no property monitor failed on the implementation's output for this scenario\n")
                    + f"# scenario {nm} (shrunk); replay: /verif/check {v.pid} --replay <this file>\n" + "".join(l + "\n" for l in small),
                    no_input=(concrete is None))
