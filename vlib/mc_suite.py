"""MC-level correspondence: real ModelChecker/strategies on script programs vs the mirrored model.

One generator with profiles (what each property emphasises), one comparison with projections (which
observables each property compares)."""
import os, random, re
from .common import THOROUGH_SCALE, run_pair, CORPUS, hash_text, split_blocks
from .shrink import shrink

DEFAULT_PROFILE = dict(
    nodes=(1, 3), procs=(1, 3), rules=(1, 4), acts=(0, 3), record=0.4,
    p_timer=0.35, p_send=0.35, p_local=0.2, p_cancel=0.1, p_once=0.3,
    p_fault=0.2, p_link=0.15, p_crash=0.1, p_mode=0.15, depth=(3, 5), locals=(1, 2),
    strategies=("dfs", "bfs"), caches=("full", "partial", "disabled"), two_runs=0.2, staged=0.0, staged3=0.35,
    collect_always=False, same_timer_name=0.3, identical_msgs=0.3, terminating=False,
    proc_kind="", json_payloads=False,
)


def make_terminating(rules):
    """a rule that sends or sets a timer strictly increases the control state and control state 3 has no
    productive rules, so every process produces finitely many events and the state space is finite"""
    fixed = []
    for r in rules:
        w = r.split()
        st = int(w[2]); acts = w[5:]
        if any(a[0] in "STO" for a in acts):
            if st >= 3:
                acts = [a for a in acts if a[0] not in "STO"]
            w[4] = str(st + 1)
        else:
            w[4] = str(max(int(w[4]), st))   # the control state never decreases
        fixed.append(" ".join(w[:5] + acts))
    return fixed


def profile(**kw):
    p = dict(DEFAULT_PROFILE)
    p.update(kw)
    return p


def gen_scenario(rng, prof):
    # staged scenarios (run_from_states) visit equal-depth start states in hash order: only state-based predicates and
    # finite state spaces make the evaluated sets independent of that order
    do_staged = rng.random() < prof["staged"]
    if do_staged:
        prof = dict(prof, terminating=True)
    lines = []
    nn = rng.randint(*prof["nodes"])
    np_ = max(rng.randint(*prof["procs"]), 1)
    nodes = [f"n{i}" for i in range(nn)]
    procs = [f"p{i}" for i in range(np_)]
    for n in nodes:
        lines.append(f"node {n}")
    loc = {}
    for p in procs:
        loc[p] = rng.choice(nodes)
        lines.append(f"proc {p} {loc[p]}" + (" rec" if rng.random() < prof["record"] else "") +
                     (" " + prof["proc_kind"] if prof["proc_kind"] else ""))
    tips = ["m0", "m1", "m2"][: rng.randint(1, 3)]
    timers = ["t0", "t1", "t2"][: rng.randint(1, 3)]
    if rng.random() < prof["same_timer_name"]:
        timers = timers[:1]
    datas = ["=a", "=b", '="q"', "$"]
    if rng.random() < (0.5 if prof["p_fault"] > 0 else 0.25):
        # payloads on which the corruption regex ("[^"]+" -> "") is subtle: empty literals, odd numbers of quotes
        datas = rng.sample(['="q"', '=""a"', '=""ab"c"', '="a""b"', '=x"y"z', '=""', '="a"b"'], 3) + ["$"]
    if prof["json_payloads"]:
        # JSON texts that json.dumps reproduces verbatim, with every falsy value (0, false, null, "", [], {}) among them
        datas = rng.sample(['="a"', "=1", '="q"', "=true", "=0", "=false", "=null", '=""', "=[]", "={}", "=[1]", "=[[]]", "=1.5", "=-3"], 4) + ["$", "$"]
    if rng.random() < prof["identical_msgs"]:
        datas = [datas[0]]

    set_names = {}

    def action(p):
        # the four kinds in proportion to their weights (a profile whose first three weights add up to 1 would otherwise never cancel)
        r = rng.random() * (prof["p_send"] + prof["p_local"] + prof["p_timer"] + prof["p_cancel"])
        if r < prof["p_send"]:
            return f"S:{rng.choice(tips)}:{rng.choice(datas)}:{rng.choice(procs)}"
        r -= prof["p_send"]
        if r < prof["p_local"]:
            return f"L:{rng.choice(tips)}:{rng.choice(datas)}"
        r -= prof["p_local"]
        if r < prof["p_timer"]:
            kind = "O" if rng.random() < prof["p_once"] else "T"
            name = rng.choice(timers)
            set_names.setdefault(p, []).append(name)
            return f"{kind}:{name}:{rng.choice([0, 1, 1, 2, 3])}"
        # cancel mostly names this process sets somewhere (so that the cancel meets a pending, possibly withheld, timer)
        pool = set_names.get(p) or timers
        return f"C:{rng.choice(pool if rng.random() < 0.8 else timers)}"

    # connected programs: rules are generated for the triggers that callbacks and earlier rules produce
    cb_locals = []
    for _ in range(rng.randint(*prof["locals"])):
        cb_locals.append((rng.choice(procs), rng.choice(tips)))
    work = [(p, f"L:{t}") for p, t in cb_locals]
    have = set()
    nrules = {p: 0 for p in procs}
    budget = {p: rng.randint(*prof["rules"]) + 1 for p in procs}
    while work:
        p, trig = work.pop(0)
        for st in ([0] if rng.random() < 0.6 else [0, 1]):
            if (p, st, trig) in have or nrules[p] >= budget[p]:
                continue
            have.add((p, st, trig)); nrules[p] += 1
            acts = [action(p) for _ in range(rng.randint(*prof["acts"]))]
            lines.append(f"rule {p} {st} {trig} {rng.choice([0, 0, 1])} " + " ".join(acts))
            for a in acts:
                parts = a.split(":")
                if parts[0] == "S":
                    work.append((parts[3], f"M:{parts[1]}"))
                elif parts[0] in ("T", "O"):
                    work.append((p, f"T:{parts[1]}"))
    if prof["terminating"]:
        rl = make_terminating([l for l in lines if l.startswith("rule")])
        lines = [l for l in lines if not l.startswith("rule")] + rl
    for k in ("drop", "dupl", "corrupt"):
        if rng.random() < prof["p_fault"]:
            lines.append(f"net {k} 1")
    if nn > 1 and rng.random() < prof["p_link"]:
        a, b = rng.sample(nodes, 2)
        lines.append(rng.choice([f"net drop_in {a}", f"net drop_out {a}", f"net disable {a} {b}",
                                 f"net partition {a} / {b}", f"net disconnect {a}"]))

    def callbacks():
        out = []
        crashed = set()
        ops = []
        pending_locals = list(cb_locals)
        for _ in cb_locals:
            ops.append("local")
        if nn > 1 and rng.random() < prof["p_crash"]:
            ops.insert(rng.randrange(len(ops) + 1), "crash")
        if rng.random() < prof["p_mode"]:
            ops.insert(rng.randrange(len(ops) + 1), "mode")
        if rng.random() < prof["p_link"]:
            ops.insert(rng.randrange(len(ops) + 1), "net")
        for op in ops:
            if op == "local":
                pp, tt = pending_locals.pop(0)
                if loc[pp] not in crashed:
                    out.append(f"cb local {pp} {tt} {rng.choice(['=a', '=b', chr(61) + chr(34) + 'x' + chr(34)] if not prof['json_payloads'] else [chr(61) + chr(34) + 'x' + chr(34), '=2', '=0', '=[]', '=null', '=false', '={}', '=' + chr(34) * 2])}")
            elif op == "crash":
                n = rng.choice(nodes)
                if n not in crashed and len(crashed) + 1 < nn:
                    crashed.add(n); out.append(f"cb crash {n}")
            elif op == "mode":
                out.append("cb mode mf")
            else:
                a = rng.choice(nodes); b = rng.choice(nodes)
                out.append(rng.choice([f"cb net drop 1", f"cb net dupl 1", f"cb net corrupt 1", f"cb net reset",
                                       f"cb net drop 1.0", f"cb net dupl 1.0", f"cb net corrupt 1.0",      # rates exactly 1
                                       f"cb net drop 0", f"cb net dupl 0", f"cb net corrupt 0",            # a rate switched off again
                                       f"cb net drop_in {a}", f"cb net disable {a} {b}", f"cb net disconnect {a}",
                                       f"cb net drop_out {a}"]))
        return out

    def preds():
        d = rng.randint(*prof["depth"])
        p = rng.choice(procs)
        goal = rng.choice(["noev", "noev", f"out:{p}:{rng.randint(1, 3)}|noev", f"st:{p}:{rng.choice([1, 2])}|noev"])
        inv = rng.choice(["none", "none", "none", f"out:{p}:{rng.randint(2, 4)}", f"st:{rng.choice(procs)}:2"])
        coll = "always" if prof["collect_always"] else rng.choice(["none", f"out:{p}:1", f"st:{p}:1", "noev", f"dgt:{max(d - 2, 0)}"])
        if prof["terminating"]:
            # state-based predicates only (the depth is not part of the state identity)
            pr = rng.choice(["none", "none", f"out:{rng.choice(procs)}:{rng.randint(2, 3)}", f"st:{rng.choice(procs)}:3"])
            if coll.startswith("dgt"):
                coll = "noev"
            return f"inv={inv} goal={goal} prune={pr} collect={coll}"
        return f"inv={inv} goal={goal} prune=dgt:{d} collect={coll}"

    lines += callbacks()
    strat = rng.choice(prof["strategies"]); cache = rng.choice(prof["caches"])
    pr = preds()
    lines.append(f"run {strat} {cache} {pr}")
    if do_staged:
        lines += [l for l in callbacks() if not l.startswith("cb mode")]
        lines.append(f"runfrom {rng.choice(prof['strategies'])} {rng.choice(prof['caches'])} {preds()}")
        if rng.random() < prof["staged3"]:
            # a third stage from the states the second one collected (their traces and depths extend two earlier stages; a node
            # crashed by the second stage's callback stays crashed with the process states it had)
            lines += [l for l in callbacks() if not l.startswith("cb mode")]
            lines.append(f"runfrom {rng.choice(prof['strategies'])} {rng.choice(prof['caches'])} {preds()}")
    if rng.random() < prof["two_runs"]:
        # the same run again on the same ModelChecker (C09), possibly with the other strategy/cache
        cbs = [l for l in lines if l.startswith("cb ")]
        if rng.random() < 0.5:
            # … without the network / crash / mode operations of the first run: whatever the first callback changed must be gone
            cbs = [l for l in cbs if l.startswith("cb local")]
        lines += cbs[: len(cbs)]
        lines.append(f"run {rng.choice(prof['strategies'])} {rng.choice(prof['caches'])} {pr}")
    # ExecutionMode::Default instead of Debug for some runs: no status counters, everything else must be the same
    lines = [l + " xmode=default" if l.startswith(("run ", "runfrom ")) and rng.random() < 0.2 else l for l in lines]
    return lines


def block(name, lines):
    return f"begin {name}\n" + "".join(l + "\n" for l in lines) + "end\n"


FIELD_RE = re.compile(r"^(?P<tag>[ECT]) N(?P<N>\[.*?\]) E(?P<E>\[.*?\]) A(?P<A>\[.*?\]) TM(?P<TM>\[.*?\]) nx=(?P<nx>\d+) X(?P<X>\[.*?\]) d=(?P<d>\d+) tr=(?P<tr>\d+)(?P<rest>.*)$")


def project(line, fields, noids=False):
    m = FIELD_RE.match(line)
    if not m:
        return line
    out = [m.group("tag")]
    for f in fields:
        if f in ("P", "T"):
            continue
        v = m.group(f)
        if f == "E" and noids:
            items = re.findall(r"\d+:((?:M|T)\(.*?\))(?=,\d+:|\]$)", v)
            v = "[" + ",".join(sorted(items)) + "]"
        out.append(f"{f}={v}")
    if "P" in fields:
        pm = re.search(r"P\[.*?\]\]?", m.group("rest"))
        out.append(pm.group(0) if pm else "P-")
    if "T" in fields or m.group("tag") in "CT":
        out.append(re.sub(r" P\[.*?\]\]", "", m.group("rest")) if "P" not in fields else m.group("rest"))
    return " ".join(out)


def proj_ref(line):
    """process-visible projection of an E line, in the format of the driver's V/R lines"""
    m = FIELD_RE.match(line)
    if not m:
        return line
    items = re.findall(r"\d+:((?:M|T)\(.*?\))(?=,\d+:|\]$)", m.group("E"))
    fl = sorted(x for x in items if x.startswith("M("))
    tm = sorted(x for x in items if x.startswith("T("))
    return f"N{m.group('N')} F[{','.join(fl)}] T[{','.join(tm)}]"


def ref_sets(model_lines):
    """per run: (vres, rres, Vset, Rset) from the driver's output"""
    out, cur = [], None
    for l in model_lines:
        if l.startswith("run "):
            cur = {"vres": None, "rres": None, "V": set(), "R": set()}
            out.append(cur)
        elif cur is not None:
            if l.startswith("vres="):
                a, b = l.split()
                cur["vres"], cur["rres"] = a.split("=", 1)[1], b.split("=", 1)[1]
            elif l.startswith("V "): cur["V"].add(l[2:])
            elif l.startswith("R "): cur["R"].add(l[2:])
    return out


ALL_FIELDS = ("N", "E", "A", "TM", "nx", "X", "d", "tr")


def split_runs(lines):
    runs, cur = [], None
    for l in lines:
        if l.startswith("run "):
            cur = {"hdr": l, "E": [], "C": [], "T": [], "stat": None, "net": None}
            runs.append(cur)
        elif cur is not None:
            if l.startswith("E "): cur["E"].append(l)
            elif l.startswith("C "): cur["C"].append(l)
            elif l.startswith("T "): cur["T"].append(l)
            elif l.startswith("stat "): cur["stat"] = l
            elif l.startswith("NETS "): cur["net"] = l
    return runs


def compare(impl, model, scen_lines, fields=ALL_FIELDS, noids=False, seq=True):
    """Returns None if the projections agree, else a short description of the first difference."""
    if impl and impl[0].endswith("-timeout"):
        return "the implementation did not finish this scenario (no output within the stall limit)"
    if model and model[0].endswith("-timeout"):
        return ("the Lean model did not finish this scenario within the stall limit: its exploration is far larger than the "
                f"implementation's ({sum(1 for l in impl if l.startswith('E '))} evaluated states)")
    ri, rm = split_runs(impl), split_runs(model)
    if len(ri) != len(rm):
        return f"number of runs differs: impl {len(ri)} model {len(rm)}"
    runlines = [l for l in scen_lines if l.startswith(("run ", "runfrom "))]
    tainted = False
    for k, (a, b) in enumerate(zip(ri, rm)):
        if k < len(runlines) and runlines[k].startswith("run "):
            tainted = False     # a plain run starts from the checker's initial state
        ra, rb = a["hdr"].split()[2:3], b["hdr"].split()[2:3]
        if k < len(runlines) and runlines[k].startswith("runfrom") and ra and rb and ra[0].startswith("result=err") and rb[0].startswith("result=err"):
            ra = rb = ["result=err"]
        if ra != rb and "skipped" not in a["hdr"]:
            return f"run {k}: result differs: impl `{a['hdr']}` model `{b['hdr']}`"
        if "skipped" in a["hdr"] or "panic" in a["hdr"]:
            if a["hdr"] != b["hdr"].split(" evaluated")[0]:
                return f"run {k}: impl `{a['hdr']}` model `{b['hdr']}`"
            continue
        if a.get("net") != b.get("net") and a["E"] and b["E"]:
            return f"run {k}: the checker's network settings at the start of the run differ:\n#   impl:  {a.get('net')}\n#   model: {b.get('net')}"
        multi = k < len(runlines) and runlines[k].startswith("runfrom")
        if multi and k > 0 and len(ri[k - 1]["C"]) <= 1 and len(rm[k - 1]["C"]) <= 1 and not tainted:
            multi = False   # one start state: nothing depends on the order of start states
        was_tainted = tainted
        if multi:
            # which of several paths to a collected state is kept as its trace and depth depends on the (hash) order in which
            # equal-depth start states were visited: every later stage starts from states whose depth and trace are not
            # determined by the property
            tainted = True
        if multi and "result=err" in a["hdr"] and "result=err" in b["hdr"]:
            # several start states of equal depth are visited in hash order by the code: which of them fails
            # first (and what was evaluated before) is not determined by the property
            continue
        pa = [project(l, fields, noids) for l in a["E"]]
        pb = [project(l, fields, noids) for l in b["E"]]
        if multi or not seq:
            # without a cache every path from every start state is explored, so also the trace-dependent observations
            # (depth, predicate battery) form a determined set
            sf = ("N", "E", "A", "P", "d") if (multi and " disabled " in runlines[k] + " " and not was_tainted) else ("N", "E", "A")
            pa = sorted(set(project(l, [f for f in fields if f in sf], noids) for l in a["E"]))
            pb = sorted(set(project(l, [f for f in fields if f in sf], noids) for l in b["E"]))
        if pa != pb:
            for i, (x, y) in enumerate(zip(pa, pb)):
                if x != y:
                    return f"run {k}: evaluated state #{i} differs:\n#   impl:  {x[:600]}\n#   model: {y[:600]}"
            return f"run {k}: number of evaluated states differs: impl {len(pa)} model {len(pb)}"
        if not multi:
            ca = sorted(project(l, fields, noids) for l in a["C"]); cb = sorted(project(l, fields, noids) for l in b["C"])
            if ca != cb:
                return f"run {k}: collected states differ (impl {len(ca)}, model {len(cb)})"
            ta = [project(l, fields, noids) for l in a["T"]]; tb = [project(l, fields, noids) for l in b["T"]]
            if ta != tb:
                return f"run {k}: error state/trace differs:\n#   impl:  {ta}\n#   model: {tb}"
        # (the bound counts distinct states by what the E line shows; with duplication a re-queued copy keeps its id but moves to
        # the back of its group of identical messages, so two states the checker rightly tells apart can look the same: skipped)
        if multi and " disabled " not in runlines[k] + " " and any("dupl" in l for l in scen_lines):
            continue
        if multi and " disabled " not in runlines[k] + " ":
            # with a shared visited cache the start state of a later run may have been evaluated before: how often a
            # goal/pruned state is counted then depends on the (hash) order of equal-depth start states.  What does not depend
            # on it: only start states can be evaluated twice
            bound = shared_cache_bound(a, len(ri[k - 1]["C"]) if k > 0 else 0)
            if bound:
                return f"run {k}: {bound}"
            continue
        if norm_stat(a["stat"]) != norm_stat(b["stat"]):
            return f"run {k}: status counts differ: impl {a['stat']} model {b['stat']}"
    return None


def shared_cache_bound(run, nstarts):
    """staged run with one shared visited cache: every evaluation except those of the start states is of a state not seen before,
    so #evaluations <= #distinct states + #start states"""
    keys = [project(l, ["N", "E", "A", "TM", "nx"], False) for l in run["E"]]
    if len(keys) > len(set(keys)) + nstarts:
        return (f"the staged run shares one visited cache, yet {len(keys)} evaluations cover only {len(set(keys))} distinct states "
                f"with {nstarts} start states: states reachable from several start states were explored again")
    return None


def norm_stat(s):
    if not s:
        return s
    m = re.match(r"stat \[(.*)\]", s)
    return sorted(m.group(1).split(",")) if m else s


def corpus_scenarios(sub):
    d = os.path.join(CORPUS, sub)
    res = []
    if os.path.isdir(d):
        for fn in sorted(os.listdir(d)):
            if fn.endswith(".txt"):
                lines = [l.strip() for l in open(os.path.join(d, fn)) if l.strip() and not l.startswith("#")]
                res.append((f"corpus:{fn}", lines))
    return res


def mechanism_stats(lines, impl):
    """Which mechanisms a scenario exercised (measured from the scenario and the implementation's output)."""
    text = "\n".join(impl)
    return {
        "faults": any(l.startswith(("net drop 1", "net dupl 1", "net corrupt 1", "cb net drop 1", "cb net dupl 1", "cb net corrupt 1")) for l in lines),
        "crash": any(l.startswith("cb crash") for l in lines),
        "timers": "T(" in text,
        "blocked": bool(re.search(r"E\[[^\]]*\d+:[MT]\([^\]]*\] A\[\]", text)) or _blocked(impl),
        "multi_states": sum(1 for l in impl if l.startswith("E ")) > 3,
        "staged": any(l.startswith("runfrom") for l in lines),
        "error": "result=err" in text,
    }


def _blocked(impl):
    for l in impl:
        m = FIELD_RE.match(l)
        if m:
            ne = len(re.findall(r"\d+:[MT]\(", m.group("E")))
            na = len([x for x in m.group("A")[1:-1].split(",") if x])
            if na < ne:
                return True
    return False


def run(v, tier, seed, prof=None, n_quick=300, n_thorough=5000, fields=ALL_FIELDS, noids=False, seq=True,
        nontrivial=lambda st: st["multi_states"], name="mc_suite", corpus=("mc",), extra=None, cfg_lines=()):
    prof = prof or DEFAULT_PROFILE
    import zlib
    rng = random.Random(seed * 7919 + zlib.crc32(name.encode()) % 1000)     # (str hash() differs from process to process)
    scen = []
    for c in corpus:
        scen += corpus_scenarios(c)
    n = n_quick if tier == "quick" else n_thorough * THOROUGH_SCALE
    for i in range(n):
        scen.append((f"g{i}", list(cfg_lines) + gen_scenario(rng, prof)))
    if extra:
        scen += extra(rng, tier)
    texts = [block(nm, l) for nm, l in scen]
    impl, model = run_pair("mc", texts)
    capped = 0
    stats_hist = {}
    nontriv = set()
    states = transitions = 0
    bad = []
    for nm, lines in scen:
        a, b = impl.get(nm, []), model.get(nm, [])
        if any("result=capped" in l for l in a):
            capped += 1
            continue
        st = mechanism_stats(lines, a)
        for k, val in st.items():
            if val:
                stats_hist[k] = stats_hist.get(k, 0) + 1
        states += sum(1 for l in a if l.startswith("E "))
        if nontrivial(st):
            nontriv.add(hash_text("\n".join(lines)))
        diff = compare(a, b, lines, fields, noids, seq)
        if diff:
            bad.append((nm, lines, diff))
    cov = v.coverage.setdefault(name, {})
    cov.update({
        "programs": len(scen) - capped, "capped_discarded": capped, "evaluations": states,
        "distinct_nontrivial": len(nontriv), "mechanisms_hit": stats_hist,
        "rule": "generated script-process systems (nodes, processes, rule tables, network settings, callbacks, "
                "strategy x cache, predicates) explored by the real ModelChecker and by the Lean model; compared: "
                f"fields {list(fields)} of every evaluated state in order, collected states, error state+trace, "
                "status counts; scenarios whose exploration exceeds the state cap are discarded; non-trivial = "
                "distinct scenario exercising the property's mechanism (see mechanisms_hit)",
        "disagreements_checked": len(bad), "samples": [{"scenario": nm, "lines": l} for nm, l in scen[:1] + scen[-2:]],
        "corpus_replayed": sum(len(corpus_scenarios(c)) for c in corpus),
    })
    return scen, impl, model, bad


def report_disagreements(v, bad, name, fields=ALL_FIELDS, noids=False, seq=True, judge_impl=None):
    """Shrink and report disagreements. `judge_impl(lines, impl_out)` (optional) is the property's monitor on
    the implementation's own output: a concrete failure makes the violation a failing input; otherwise the
    violation is reported with `no-failing-input-found` naming the broken correspondence."""
    from .common import run_blocks, VH, STALL_S
    def impl_only(ls):
        try:
            o, _, _ = run_blocks([VH, "mc"], [block("x", ls)], 20)
        except Exception:
            return []
        return o.get("x", [])
    # prefer the scenarios on which a property monitor fails on the implementation's own output (judged on the unshrunk
    # scenario: shrinking with respect to the broken correspondence may remove what makes the failure visible)
    concrete_first, rest = [], []
    if judge_impl and bad:
        cand = bad[:40]
        o, _, _ = run_blocks([VH, "mc"], [block(nm, lines) for nm, lines, _ in cand], STALL_S)
        for nm, lines, diff in cand:
            out = o.get(nm, [])
            msg = None
            if out and not any("capped" in l or l.endswith("-timeout") for l in out):
                try:
                    msg = judge_impl(lines, out)
                except Exception:
                    msg = None
            (concrete_first if msg else rest).append((nm, lines, diff))
        rest += bad[40:]
    else:
        rest = list(bad)
    for nm, lines, diff in concrete_first[:3]:
        def mfails(ls):
            out = impl_only(ls)
            if not out or any("capped" in l or l.endswith("-timeout") for l in out):
                return False
            try:
                return judge_impl(ls, out) is not None
            except Exception:
                return False
        small = shrink(lines, mfails, keep=lambda l: l.startswith(("node", "run")), budget=120)
        out = impl_only(small)
        concrete = judge_impl(small, out) if out else None
        if concrete is None:
            small, out = lines, impl_only(lines)
            concrete = judge_impl(small, out)
        content = (f"# property {v.pid}: the real model checker deviates from the Lean model ({name})\n"
                   f"# correspondence broken: {diff}\n"
                   f"# monitor on the implementation's own output: {concrete}\n"
                   f"# scenario {nm} (shrunk with respect to the monitor); replay: /verif/check {v.pid} --replay <this file>\n"
                   + "".join(l + "\n" for l in small))
        v.violation(f"{name}-{nm}.txt".replace(":", "_"), content, no_input=(concrete is None))
    for nm, lines, diff in rest[:max(0, 3 - len(concrete_first[:3]))]:
        def fails(ls):
            try:
                i, m = run_pair("mc", [block("x", ls)], jobs=1, stall=20)
            except Exception:
                return False
            if any("capped" in l for l in i.get("x", [])):
                return False
            return compare(i.get("x", []), m.get("x", []), ls, fields, noids, seq) is not None
        small = shrink(lines, fails, keep=lambda l: l.startswith(("node", "run")), budget=120)
        i, m = run_pair("mc", [block("x", small)], jobs=1, stall=20)
        d = compare(i.get("x", []), m.get("x", []), small, fields, noids, seq) or diff
        concrete = judge_impl(small, i.get("x", [])) if judge_impl else None
        content = (f"# property {v.pid}: the real model checker deviates from the Lean model ({name})\n"
                   f"# correspondence broken: {d}\n"
                   + (f"# monitor on the implementation's own output: {concrete}\n" if concrete else
                      "# no property monitor failed on the implementation's output for this scenario\n")
                   + f"# scenario {nm} (shrunk); replay: /verif/check {v.pid} --replay <this file>\n"
                   + "".join(l + "\n" for l in small))
        v.violation(f"{name}-{nm}.txt".replace(":", "_"), content, no_input=(concrete is None))
