"""Monitors on the implementation's own simulator observations (executable restatements of C05, C06, C08, C17).
They walk the scenario operations and the observation lines together (one `ret=` line per API call)."""
import re, struct

ENTRY = re.compile(r"([A-Z]{2})\(([^()]*)\)")


def hexf(h):
    return struct.unpack(">d", struct.pack(">Q", int(h, 16)))[0]


def val(tok):
    if tok.startswith("x"):
        return hexf(tok[1:])
    return int(tok) * 0.5


def corrupt(s):
    return re.sub(r'"[^"]+"', '""', s)


def split_entries(trtext):
    """entries of a tr=[...] list; payloads never contain parentheses in generated scenarios"""
    return [(m.group(1), m.group(2).split(",")) for m in ENTRY.finditer(trtext)]


class Walk:
    """replays network settings / crash status from the operations and yields (op, ret, time, entries)"""

    def __init__(self, lines, impl):
        self.ops = [l for l in lines if not l.startswith(("seed", "draws", "rule", "refenum"))]
        self.impl = impl

    def steps(self):
        i = 0
        for op in self.ops:
            if i >= len(self.impl):
                return
            if op == "obs":
                block = []
                while i < len(self.impl) and not self.impl[i].startswith("ret="):
                    block.append(self.impl[i]); i += 1
                yield op, "obs", None, block
                continue
            line = self.impl[i]; i += 1
            m = re.match(r"ret=(\S*) t=([0-9a-f]{16}) tr=\[(.*)\]$", line)
            if not m:
                yield op, line, None, []
                if "panic" in line or "skipped" in line:
                    return
                continue
            yield op, m.group(1), hexf(m.group(2)), split_entries(m.group(3))


def net_state():
    return {"min": 1.0, "max": 1.0, "drop": 0.0, "dupl": 0.0, "corrupt": 0.0, "din": set(), "dout": set(), "links": set()}


def apply_net(ns, w):
    k = w[1]
    if k in ("drop", "dupl", "corrupt"): ns[k] = val(w[2])
    elif k == "delay": ns["min"] = ns["max"] = val(w[2])
    elif k == "delays": ns["min"], ns["max"] = val(w[2]), val(w[3])
    elif k == "drop_in": ns["din"].add(w[2])
    elif k == "pass_in": ns["din"].discard(w[2])
    elif k == "drop_out": ns["dout"].add(w[2])
    elif k == "pass_out": ns["dout"].discard(w[2])
    elif k == "disconnect": ns["din"].add(w[2]); ns["dout"].add(w[2])
    elif k == "connect": ns["din"].discard(w[2]); ns["dout"].discard(w[2])
    elif k == "disable": ns["links"].add((w[2], w[3]))
    elif k == "enable": ns["links"].discard((w[2], w[3]))
    elif k == "partition":
        p = w.index("/")
        for a in w[2:p]:
            for b in w[p + 1:]:
                ns["links"].add((a, b)); ns["links"].add((b, a))
    elif k == "reset": ns["din"].clear(); ns["dout"].clear(); ns["links"].clear()


def monitor(lines, impl, which):
    """returns None or a description of the first violation of property `which` (C05, C06, C08, C17)"""
    ns = net_state()
    sends = {}          # msg id -> dict
    crashed = {}        # node -> crash time (while crashed)
    crash_epoch = {}    # node -> list of crash times
    last_time = 0.0
    last_all = 0.0
    handler_time = None
    prev_clock = 0.0
    timers = {}         # timer id -> (fire time, node, set time)
    dead_timers = set()
    counts = {}         # proc -> dict(s, r) since last start
    nmc = traffic = 0
    seq = 0
    # C06, handler clocks: which (process, message type) pairs carry a clock reading (`K:` actions; not also used by `R:`)
    ktips, rtips, skew = set(), set(), {}
    where = {}
    for_marks = []      # (trace position at the end of a `for` call, end of its window, the call)
    local_ids = set()
    unread = {}         # proc -> local messages sent (trace) and not yet returned by a reading call
    for l in lines:
        if l.startswith("rule "):
            ws = l.split()
            for a in ws[5:]:
                if a.startswith("K:"): ktips.add((ws[1], a[2:]))
                if a.startswith("R:"): rtips.add((ws[1], a[2:]))
    ktips -= rtips
    tr_all, last_obs = [], []
    for op, ret, t, entries in Walk(lines, impl).steps():
        w = op.split()
        if ret == "obs":
            last_obs = entries
        elif t is not None:
            tr_all.extend(entries)
        if w[0] == "net":
            apply_net(ns, w)
        if w[0] == "skew" and len(w) == 3:
            skew[w[1]] = val(w[2])
        if w[0] == "proc" and len(w) >= 3 and ret == "ok":
            where[w[1]] = w[2]          # the node the process was (re-)created on
        if ret == "obs" and which in ("C17", "C06"):
            # local outboxes: exactly the local sends of the trace that no call has returned yet, in order
            for l in entries:
                mo = re.match(r"P (\S+) \S+ st=\S* out=(\S*) s=", l)
                if mo and mo.group(1) in unread:
                    want = "[" + ",".join(unread[mo.group(1)]) + "]"
                    if mo.group(2) != want:
                        return (f"the local outbox of {mo.group(1)} is {mo.group(2)[:200]}, but the local messages it sent (trace) that no "
                                f"read_local_messages / step_until_local_message* call has returned yet are {want[:200]}")
        if ret == "obs":
            for l in entries:
                if l.startswith("Nd ") and " api=0" in l:
                    return ("a System-level accessor (node_is_crashed, proc_node_is_crashed, proc_node_name, sent_message_count, "
                            "received_message_count, local_outbox, event_log, process_names) disagrees with the node-level accessor it "
                            f"is documented to delegate to: {l}")
            if which in ("C07", "C08"):
                # the timer contract judged on each process's event log: requested operations and firings in order
                # (C08: the event log of a process re-created after a recovery starts empty, so a timer that was pending when its
                # node crashed shows up as a firing nobody asked for)
                for l in entries:
                    m = re.match(r"P (\S+) (\S+) st=\S* out=\S* s=\d+ r=\d+ (?:iss=\d+ )?(?:issok=\d )?log=\[(.*)\]$", l)
                    if not m:
                        continue
                    pend = set()
                    for ev in re.findall(r"[0-9a-f]{16}:(tset|tcancel|tfired)\(([^()]*)\)", m.group(3)):
                        kind, args = ev[0], ev[1].split(",")
                        name = args[0]
                        if kind == "tset":
                            if args[2] == "0" or name not in pend:
                                pend.add(name)
                        elif kind == "tcancel":
                            pend.discard(name)
                        else:
                            if name not in pend:
                                return (f"process {m.group(1)}: timer {name} fired although no instance of it is pending by the contract "
                                        f"(it was cancelled, overridden, already fired, or set_timer_once was ignored)")
                            pend.discard(name)
                    if which == "C08":
                        continue        # (the lost-timer half is about C07: a crash legitimately discards pending timers)
                    qm = [x for x in entries if x.startswith("Net ")]
                    drained = bool(qm) and " Q=[] " in qm[0] + " "
                    ndm = {mm.group(1): mm.group(2) for mm in (re.match(r"Nd (\S+) crashed=(\d)", x) for x in entries) if mm}
                    if drained and pend and ndm.get(m.group(2)) == "0":
                        return (f"process {m.group(1)}: the queue is empty, yet by the contract timer(s) {sorted(pend)} are still pending "
                                f"(set and neither fired, cancelled nor overridden): a timer was lost")
            if which in ("C06", "C07"):
                # the simulator applies exactly the calls the handler issued, in their order (ties are broken by creation order,
                # which is the order of the calls; the timer contract is about the calls as issued)
                for l in entries:
                    mi = re.match(r"P (\S+) \S+ st=\S* out=\S* s=\d+ r=\d+ iss=(\d+) issok=(\d) log=", l)
                    if mi and mi.group(3) != "1":
                        return (f"the event log of {mi.group(1)} does not list the {mi.group(2)} Context calls its handlers issued, in their order: "
                                f"calls were merged, dropped or reordered before they were applied")
            if which == "C17":
                for l in entries:
                    mi = re.match(r"P (\S+) \S+ st=\S* out=\S* s=\d+ r=\d+ iss=(\d+) issok=(\d) log=\[(.*)\]$", l)
                    if mi:
                        nact = len(re.findall(r":(?:sent|lsent|tset|tcancel)\(", mi.group(4)))
                        if nact != int(mi.group(2)) or mi.group(3) != "1":
                            return (f"the handlers of {mi.group(1)} issued {mi.group(2)} Context calls since it was added (recorded by the process "
                                    f"itself); its event log records {nact} actions" + ("" if mi.group(3) == "1" else ", not the same ones in the same order"))
                    m = re.match(r"P (\S+) (\S+) st=\S* out=\S* s=(\d+) r=(\d+) (?:iss=\d+ )?(?:issok=\d )?log=\[(.*)\]$", l)
                    if m:
                        p = m.group(1)
                        c = counts.get(p, {"s": 0, "r": 0})
                        if int(m.group(3)) != c["s"]:
                            return f"sent_message_count of {p} is {m.group(3)} but the trace has {c['s']} MessageSent by it since it started"
                        if int(m.group(4)) != c["r"]:
                            return f"received_message_count of {p} is {m.group(4)} but the trace has {c['r']} MessageReceived by it since it started"
                        log = m.group(5)
                        if log.count(":recv(") != c["r"] or log.count(":sent(") != c["s"]:
                            return f"event log of {p} has {log.count(':recv(')} receipts / {log.count(':sent(')} sends, counters say {c['r']} / {c['s']}"
                    m = re.match(r"Net nmc=(\d+) traffic=(\d+)", l)
                    if m and (int(m.group(1)) != nmc or int(m.group(2)) != traffic):
                        return f"network_message_count/traffic are {m.group(1)}/{m.group(2)} but the trace gives {nmc}/{traffic}"
            continue
        if t is None:
            continue
        if which in ("C17", "C06"):
            if w[0] == "proc" and len(w) >= 3 and ret == "ok":
                unread[w[1]] = []           # a fresh process starts with an empty outbox
            for kd, ff in entries:
                if kd == "LS" and len(ff) >= 4 and ff[1].count("-") == 2:
                    unread.setdefault(ff[1].split("-")[1], []).append(",".join(ff[2:]))
            got = None
            if w[0] == "read" and ret.startswith("["):
                got = ret
            elif w[0] in ("until_local", "until_local_max", "until_local_timeout") and ret.startswith("Ok["):
                got = ret[2:]
            if got is not None and w[1] in unread:
                want = "[" + ",".join(unread[w[1]]) + "]"
                if got != want:
                    return (f"`{op}` returned {got[:200]}, but the local messages {w[1]} sent (trace) that no earlier call has returned are "
                            f"{want[:200]}")
                unread[w[1]] = []
            elif w[0] == "until_local_timeout" and ret == "Err" and prev_clock is not None:
                # giving up must not consume anything (checked at the next observation) and happens only when the deadline has
                # passed or nothing is left to do
                pass
        if which == "C06":
            # the stepping functions process what they document and stop as soon as their condition holds
            inv = [i for i, (kd, _) in enumerate(entries) if kd in ("MR", "TF")]     # handler invocations of this call
            bound = {"step": 1, "steps": int(w[1]) if w[0] == "steps" and len(w) > 1 else None,
                     "until_local_max": int(w[2]) if w[0] == "until_local_max" else None}.get(w[0])
            if bound is not None and len(inv) > bound:
                return f"`{op}` handled {len(inv)} events, more than the {bound} it may process"
            if w[0] in ("until_local", "until_local_max"):
                mine = [i for i, (kd, ff) in enumerate(entries) if kd == "LS" and ff[1].split("-")[1] == w[1]]
                if ret == "Err" and mine:
                    return (f"`{op}` returned Err although {w[1]} produced a local message during the call (it was left unread in the outbox: "
                            f"the call did not check the outbox after its last step)")
                if ret.startswith("Ok") and mine and any(i > mine[0] for i in inv):
                    return f"`{op}` kept stepping after {w[1]} had produced a local message"
            if w[0] == "for" and prev_clock is not None:
                want = prev_clock + val(w[1])
                if t != want:
                    return f"`{op}` called at time {prev_clock} left the clock at {t}, documented: {want}"
                late = [hexf(ff[0]) for kd, ff in entries if kd in ("MR", "TF") and hexf(ff[0]) > want]
                if late:
                    return f"`{op}` called at time {prev_clock} handled an event at time {late[0]}, after the end of the interval {want}"
        if which == "C06" and w[0] == "for" and prev_clock is not None:
            # everything that was due within the window has been handled when the call returns
            for_marks.append((seq + len(entries), prev_clock + val(w[1]), op))
        prev_clock = t
        if w[0] == "crash" and len(w) == 2 and ret == "ok":
            # the call itself (not only its NodeCrashed entry) marks the crash: everything sent before it is lost
            crashed[w[1]] = t
            crash_epoch.setdefault(w[1], []).append((seq + 0.5, t))
        for kind, f in entries:
            et = hexf(f[0])
            seq += 1
            if which == "C17":
                # every entry carries the (global) time at which it was logged: the trace is time-ordered, and what a handler
                # does is stamped with the time of its invocation
                if et < last_all:
                    return f"global trace goes back in time: a {kind} entry at {et} follows an entry at {last_all}"
                last_all = et
                if kind in ("MR", "TF", "LR"):
                    handler_time = et
                elif kind in ("LS", "TS", "TC", "MS") and handler_time is not None and et != handler_time and t is not None and op.split()[0] in ("step", "steps", "local", "for", "until", "until_local", "noevents"):
                    if kind != "MS" or True:
                        return (f"a {kind} entry produced by a handler invoked at time {handler_time} is stamped {et}")
            if kind in ("MR", "TF", "LR") and which == "C06":
                if et < last_time:
                    return f"{kind} handled at time {et} after an event at time {last_time}: time went backwards"
                last_time = max(last_time, et)
            if kind == "LS" and which == "C06" and len(f) == 4 and re.fullmatch(r"=?[0-9a-f]{16}", f[3]):
                f = f[:3] + [f[3].lstrip("=")]
                node, proc = f[1].split("-")[0], f[1].split("-")[1]
                if (proc, f[2]) in ktips:
                    want = et + skew.get(node, 0.0)
                    if hexf(f[3]) != want:
                        return (f"a handler of {proc} on {node} read ctx.time() = {hexf(f[3])} at global time {et}; the node's clock skew is "
                                f"{skew.get(node, 0.0)}, so it must read {want}")
            if kind == "PS":
                counts[f[2]] = {"s": 0, "r": 0}
            elif kind == "MS":
                mid, sn, sp, dn, dp = f[1], f[2], f[3], f[4], f[5]
                if which in ("C05", "C08") and (where.get(sp, sn) != sn or where.get(dp, dn) != dn):
                    return (f"message {mid} from {sp} to {dp} is routed as {sn} -> {dn}, but the processes live on "
                            f"{where.get(sp, sn)} and {where.get(dp, dn)}: link controls, faults and delays of the wrong nodes are applied")
                data = ",".join(f[6:])
                cut = sn != dn and (sn in ns["dout"] or dn in ns["din"] or (sn, dn) in ns["links"])
                sends[mid] = dict(t=et, q=seq, sn=sn, dn=dn, sp=sp, dp=dp, data=data, cut=cut, ns=dict(ns, din=set(ns["din"]), dout=set(ns["dout"]), links=set(ns["links"])),
                                  recv=0, dropped=0, dropped_at_send=False, src_crash=None, dst_crash=None)
                counts.setdefault(sp, {"s": 0, "r": 0})["s"] += 1
                if sn != dn:
                    nmc += 1; traffic += len(data.split(",=", 1)[0]) + len(data.split(",=", 1)[1]) if ",=" in data else 0
            elif kind == "MD":
                s = sends.get(f[1])
                if s is None:
                    if which in ("C05", "C17"): return f"MessageDropped for unknown message id {f[1]}"
                    continue
                s["dropped"] += 1
                if which == "C17" and s["ns"]["dupl"] == 0 and s["recv"] + s["dropped"] > 1:
                    return (f"message {f[1]} was sent while the duplication rate was zero, yet it has {s['recv']} receipts and {s['dropped']} "
                            f"recorded drops: more than one fate for one copy")
                if et == s["t"] and s["recv"] == 0 and s["sn"] not in crashed:
                    s["dropped_at_send"] = True
            elif kind == "MR":
                mid, dn, dp = f[1], f[4], f[5]
                data = ",".join(f[6:])
                s = sends.get(mid)
                counts.setdefault(dp, {"s": 0, "r": 0})["r"] += 1
                if s is None:
                    if which in ("C05", "C17"): return f"message id {mid} received but never sent"
                    continue
                s["recv"] += 1
                if which == "C05":
                    if s["cut"]:
                        return f"message {mid} delivered although the path {s['sn']}->{s['dn']} was disabled when it was sent"
                    if data != s["data"] and s["sn"] == s["dn"]:
                        return f"message {mid} between two processes of node {s['sn']} was delivered with payload `{data}`, sent `{s['data']}`: inside a node messages are delivered intact"
                    if data != s["data"]:
                        tip, payload = s["data"].split(",=", 1)
                        if data != f"{tip},={corrupt(payload)}":
                            return f"message {mid} delivered with payload `{data}`, sent `{s['data']}`"
                        if not s["ns"]["corrupt"] > 0:
                            return f"message {mid} delivered corrupted although the corruption rate was 0 when it was sent"
                    if s["recv"] > 3 or (s["recv"] > 1 and not s["ns"]["dupl"] > 0) or (s["recv"] > 1 and s["sn"] == s["dn"]):
                        return f"message {mid} delivered {s['recv']} times (duplication rate at send: {s['ns']['dupl']})"
                    if s["sn"] != s["dn"] and s["ns"]["drop"] >= 1.0:
                        return f"message {mid} delivered although the drop rate was {s['ns']['drop']} when it was sent"
                if which == "C06":
                    for mseq, wend, fop in for_marks:
                        if s["q"] < mseq < seq and et <= wend:
                            return (f"message {mid} arrived at {et}, within the window of `{fop}` (until {wend}) and was sent before that "
                                    f"call returned, but was only handled by a later call: step_for_duration did not process the events "
                                    f"it documents")
                if which in ("C05", "C06"):
                    lo, hi = (0.0, 0.0) if s["sn"] == s["dn"] else (s["ns"]["min"], s["ns"]["max"])
                    if not (s["t"] + lo <= et <= s["t"] + hi):
                        return f"message {mid} sent at {s['t']} arrived at {et}, outside [{s['t'] + lo}, {s['t'] + hi}]"
                if which == "C17" and s["dropped_at_send"]:
                    return f"message {mid} was logged as dropped when sent and later received"
                if which == "C17" and s["ns"]["dupl"] == 0 and s["recv"] + s["dropped"] > 1:
                    return (f"message {mid} was sent while the duplication rate was zero, yet it has {s['recv']} receipts and {s['dropped']} "
                            f"recorded drops: more than one fate for one copy")
                if which == "C17" and s["recv"] + s["dropped"] > 3:
                    return f"message {mid}: {s['recv']} receipts + {s['dropped']} drops exceed the 3 possible copies"
                if which == "C08":
                    if dn in crashed:
                        return f"message {mid} handled on node {dn} while it is crashed"
                    for cq, ct in crash_epoch.get(s["sn"], []):
                        if s["q"] < cq:
                            return f"message {mid} sent by {s['sn']} at {s['t']} was in flight when {s['sn']} crashed at {ct} and was still delivered at {et}"
                    for cq, ct in crash_epoch.get(dn, []):
                        if s["q"] < cq:
                            return f"message {mid} was pending toward {dn} when it crashed at {ct} and was still delivered at {et}"
            elif kind == "TS":
                timers[f[1]] = (et + hexf(f[5]), f[3], et, seq)
            elif kind == "TC":
                dead_timers.add(f[1])
            elif kind == "TF":
                tid, node = f[1], f[3]
                if which == "C06" and tid in timers:
                    for mseq, wend, fop in for_marks:
                        if timers[tid][3] < mseq < seq and et <= wend:
                            return (f"timer {tid} fell due at {et}, within the window of `{fop}` (until {wend}) and was set before that "
                                    f"call returned, but was only handled by a later call: step_for_duration did not process the events "
                                    f"it documents")
                if which in ("C06", "C07") and tid in timers and timers[tid][0] != et:
                    return f"timer {tid} set at {timers[tid][2]} fired at {et} instead of {timers[tid][0]}"
                if which == "C07" and tid in dead_timers:
                    return f"timer {tid} fired after it was cancelled or fired before"
                dead_timers.add(tid)
                if which == "C08":
                    if node in crashed:
                        return f"timer {tid} fired on node {node} while it is crashed"
                    for cq, ct in crash_epoch.get(node, []):
                        if tid in timers and timers[tid][3] < cq:
                            return f"timer {tid} of node {node} was pending when the node crashed at {ct} and still fired at {et}"
            elif kind in ("LR", "LS") and which == "C17":
                # identifiers: every local message (to or from the user) has its own id in the trace
                if f[1] in local_ids:
                    return f"the local message id {f[1]} appears twice in the trace (second time at {et}): identifiers are not unique"
                local_ids.add(f[1])
            elif kind == "LR" and which == "C08":
                if f[1].split("-")[0] in crashed:
                    return f"local message handled on crashed node {f[1].split('-')[0]}"
            elif kind == "NX":
                crashed[f[1]] = et
                crash_epoch.setdefault(f[1], []).append((seq, et))
            elif kind == "NR":
                crashed.pop(f[1], None)
    if which == "C06" and not any(l.split()[0] in ("crash", "recover") for l in lines if l.split()):
        msg = tie_order(tr_all, last_obs)
        if msg:
            return msg
    return None


def tie_order(tr_all, obs):
    """C06 "ties in creation order", across kinds: within one handler call a process issues its calls in the order its event log
    lists them; if a message it sent and a timer it set in that call fall due at exactly the same time, the one issued first is
    handled first.  The k-th `sent` / `tset` of the event log is the k-th MessageSent / TimerSet of that process in the trace."""
    pos_ms, pos_ts, first_mr, first_tf = {}, {}, {}, {}
    for i, (kind, f) in enumerate(tr_all):
        if kind == "MS":
            pos_ms.setdefault(f[3], []).append(f[1])                    # proc -> message ids in order
        elif kind == "TS":
            pos_ts.setdefault(f[4], []).append(f[1])                    # proc -> timer ids in order
        elif kind == "MR" and f[1] not in first_mr:
            first_mr[f[1]] = (i, f[0])
        elif kind == "TF" and f[1] not in first_tf:
            first_tf[f[1]] = (i, f[0])
    nmr = {}
    for kind, f in tr_all:
        if kind == "MR":
            nmr[f[1]] = nmr.get(f[1], 0) + 1
    for l in obs:
        m = re.match(r"P (\S+) \S+ st=\S* out=\S* s=\d+ r=\d+ (?:iss=\d+ )?(?:issok=\d )?log=\[(.*)\]$", l)
        if not m:
            continue
        p = m.group(1)
        log = re.findall(r"([0-9a-f]{16}):(sent|tset)\(", m.group(2))
        if sum(1 for _, k in log if k == "sent") != len(pos_ms.get(p, [])) or sum(1 for _, k in log if k == "tset") != len(pos_ts.get(p, [])):
            continue
        ks = kt = 0
        items = []
        for tm, k in log:
            if k == "sent":
                items.append((tm, "m", pos_ms[p][ks])); ks += 1
            else:
                items.append((tm, "t", pos_ts[p][kt])); kt += 1
        for a in range(len(items)):
            for b in range(a + 1, len(items)):
                if items[a][0] != items[b][0]:
                    break
                if items[a][1] == items[b][1]:
                    continue
                xa = first_mr.get(items[a][2]) if items[a][1] == "m" else first_tf.get(items[a][2])
                xb = first_mr.get(items[b][2]) if items[b][1] == "m" else first_tf.get(items[b][2])
                mid = items[a][2] if items[a][1] == "m" else items[b][2]
                if xa is None or xb is None or nmr.get(mid, 0) != 1:
                    continue
                if xa[1] == xb[1] and xa[0] > xb[0]:
                    what = ("message", "timer") if items[a][1] == "m" else ("timer", "message")
                    return (f"process {p} issued a {what[0]} ({items[a][2]}) before a {what[1]} ({items[b][2]}) in one handler call (its event "
                            f"log), both fell due at time {hexf(xa[1])}, yet the {what[1]} was handled first: ties are not handled in creation order")
    return None
