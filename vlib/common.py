"""Shared plumbing of the /verif checks: paths, subprocess helpers, evidence, verdict lines."""
import json, os, subprocess, sys, time, hashlib, re
from concurrent.futures import ThreadPoolExecutor

# the thorough tier multiplies every suite's scenario count by this factor (VERIF_THOROUGH_SCALE to override)
THOROUGH_SCALE = int(__import__('os').environ.get('VERIF_THOROUGH_SCALE', '5'))

ROOT = os.path.dirname(os.path.dirname(os.path.abspath(__file__)))
LEAN = os.path.join(ROOT, "lean")
HARNESS = os.path.join(ROOT, "harness")
OUT = os.path.join(ROOT, "out")
EVID = os.path.join(ROOT, "evidence")
CORPUS = os.path.join(ROOT, "corpus")
VH = os.path.join(HARNESS, "target", "debug", "vh")
DRIVER = os.path.join(LEAN, ".lake", "build", "bin", "asdriver")
JOBS = int(os.environ.get("VERIF_JOBS", "16"))

ENV = dict(os.environ)
ENV.update({"CARGO_NET_OFFLINE": "true", "PYTHONPATH": "/repo/python", "RUST_BACKTRACE": "0"})


def sh(cmd, cwd=None, timeout=None, input=None, check=False):
    p = subprocess.run(cmd, cwd=cwd, env=ENV, input=input, capture_output=True, text=True,
                       timeout=timeout, shell=isinstance(cmd, str))
    if check and p.returncode != 0:
        raise RuntimeError(f"command failed ({p.returncode}): {cmd}\n{p.stdout[-4000:]}\n{p.stderr[-4000:]}")
    return p


class BuildError(Exception):
    def __init__(self, what, log):
        super().__init__(what)
        self.what = what
        self.log = log


def build_harness():
    """Rebuild the harness against /repo's *current working tree* (path dependency) with hooks on."""
    t = time.time()
    # the lock file follows the repository's one (no network: never regenerate)
    p = sh(["cargo", "build", "--offline"], cwd=HARNESS, timeout=1800)
    if p.returncode != 0:
        raise BuildError("harness build failed (cargo build of /verif/harness against /repo)", p.stderr[-6000:])
    return time.time() - t


def hash_text(s):
    return hashlib.sha256(s.encode()).hexdigest()[:16]


def chunks(lst, n):
    n = max(1, min(n, len(lst)))
    k, m = divmod(len(lst), n)
    out, i = [], 0
    for j in range(n):
        sz = k + (1 if j < m else 0)
        out.append(lst[i:i + sz])
        i += sz
    return [c for c in out if c]


STALL_S = int(os.environ.get("VERIF_STALL_S", "90"))
RUN_STATS = {"scenarios": 0, "model_timeouts": 0}


def run_blocks(cmd, blocks, stall):
    """Feed scenario blocks ('begin <id> ... end') to a line-protocol process and collect its output per block.
    A watchdog kills the process when it produces no output line for `stall` seconds; the block it was working
    on is reported as timed out ([`<who>-timeout`] as its output) and the remaining blocks are run in a fresh process.
    Returns (dict id -> lines, returncode, stderr tail)."""
    import threading, queue
    out, todo = {}, list(blocks)
    while todo:
        names = [b.split("\n", 1)[0].split()[1] for b in todo]
        p = subprocess.Popen(cmd, stdin=subprocess.PIPE, stdout=subprocess.PIPE, stderr=subprocess.PIPE, text=True, env=ENV)
        q = queue.Queue()

        def feed(p=p, text="".join(todo)):
            try:
                p.stdin.write(text); p.stdin.close()
            except Exception:
                pass

        def read(p=p, q=q):
            for line in p.stdout:
                q.put(line)
            q.put(None)

        err = []
        threading.Thread(target=feed, daemon=True).start()
        threading.Thread(target=read, daemon=True).start()
        threading.Thread(target=lambda p=p: err.append(p.stderr.read()), daemon=True).start()
        text, stalled = [], False
        while True:
            try:
                line = q.get(timeout=stall)
            except queue.Empty:
                stalled = True
                p.kill()
                break
            if line is None:
                break
            text.append(line)
        p.wait()
        got = split_blocks("".join(text))
        out.update(got)
        if not stalled:
            if p.returncode != 0:
                return out, p.returncode, ("".join(err))[-4000:] + "".join(text)[-2000:]
            break
        culprit = next((n for n in names if n not in got), None)
        if culprit is None:
            break
        out[culprit] = [f"{os.path.basename(cmd[0])}-timeout"]
        todo = todo[names.index(culprit) + 1:]
    return out, 0, ""


def run_pair(sub, scenarios, jobs=None, extra_driver_args=(), extra_vh_args=(), timeout=3600, stall=None):
    """Run scenario texts (each a block 'begin <id> ... end') through the real code (vh) and the
    Lean driver in parallel chunks.  Returns (impl_blocks, model_blocks): dict id -> list of lines.
    Neither side can hang the check: see `run_blocks`."""
    jobs = jobs or JOBS
    stall = stall or STALL_S
    parts = chunks(scenarios, jobs)

    def one(part):
        ia, rc, errtxt = run_blocks([VH, sub, *extra_vh_args], part, stall)
        if rc != 0:
            raise BuildError(f"vh {sub} exited with {rc}", errtxt)
        # scenarios the implementation aborted for size (`result=capped`) or did not finish are not sent to the model
        keep = []
        for blk in part:
            nm = blk.split("\n", 1)[0].split()[1]
            if not any("result=capped" in l or l.endswith("-timeout") for l in ia.get(nm, [])):
                keep.append(blk)
        ib, rc, errtxt = run_blocks([DRIVER, sub, *extra_driver_args], keep, stall)
        if rc != 0:
            raise BuildError(f"asdriver {sub} exited with {rc}", errtxt)
        return ia, ib

    impl, model = {}, {}
    with ThreadPoolExecutor(max_workers=jobs) as ex:
        for a, b in ex.map(one, parts):
            impl.update(a)
            model.update(b)
    # the NETS line is rendered from the Debug text of a private structure: if the implementation side could not produce it
    # (fields renamed), the model's lines are dropped too and the comparison of network settings is skipped
    if model and not any(l.startswith("NETS ") for out in impl.values() for l in out):
        for nm in model:
            model[nm] = [l for l in model[nm] if not l.startswith("NETS ")]
    # a scenario on which the *model* did not finish in time says nothing about the code (the driver is quadratic and the
    # machine may be loaded): it is dropped from the comparison and counted; many of them at once are reported by the caller
    slow = [nm for nm, out in model.items() if out and out[0].endswith("-timeout")]
    for nm in slow:
        model.pop(nm, None)
        impl.pop(nm, None)
    if len(parts) > 1 or len(scenarios) > 1:
        RUN_STATS["scenarios"] += len(scenarios)
        RUN_STATS["model_timeouts"] += len(slow)
    return impl, model


def split_blocks(text):
    blocks, cur, name = {}, None, None
    for line in text.splitlines():
        if line.startswith("begin "):
            name = line.split()[1]
            cur = []
        elif line == "end":
            if name is not None:
                blocks[name] = cur
            cur, name = None, None
        elif cur is not None:
            cur.append(line)
    return blocks


def known_findings():
    """Entries of /verif/KNOWN_FINDINGS.txt: list of dicts {kind, property, key, text}."""
    res = []
    path = os.path.join(ROOT, "KNOWN_FINDINGS.txt")
    if not os.path.exists(path):
        return res
    for line in open(path):
        line = line.strip()
        if not line or line.startswith("#"):
            continue
        m = re.match(r"(finding|fixed): property=(C\d+) (\S+) (.*)", line)
        if m:
            res.append({"kind": m.group(1), "property": m.group(2), "key": m.group(3), "text": m.group(4)})
    return res


class Verdict:
    """Collects what a check run found; prints the interface lines; writes the evidence file."""

    def __init__(self, pid, tier, seed):
        self.pid, self.tier, self.seed = pid, tier, seed
        self.t0 = time.time()
        self.violations = []      # (replay_path, suffix)
        self.known = []           # text lines
        self.coverage = {}
        self.assumptions = []
        os.makedirs(os.path.join(OUT, pid), exist_ok=True)
        # replay files of earlier runs of this check are stale: every run writes the ones it refers to
        if not os.environ.get("VERIF_KEEP_OUT"):
            for fn in os.listdir(os.path.join(OUT, pid)):
                if fn.endswith(".txt"):
                    try:
                        os.remove(os.path.join(OUT, pid, fn))
                    except OSError:
                        pass

    def replay_path(self, name):
        d = os.path.join(OUT, self.pid)
        os.makedirs(d, exist_ok=True)
        return os.path.join(d, name)

    def violation(self, name, content, no_input=False):
        path = self.replay_path(name)
        with open(path, "w") as f:
            f.write(content)
        self.violations.append((path, " no-failing-input-found" if no_input else ""))

    def known_finding(self, text):
        if text not in self.known:
            self.known.append(text)

    def finish(self):
        wall = time.time() - self.t0
        cov = dict(self.coverage)
        cov["model_timeouts"] = dict(RUN_STATS)
        if RUN_STATS["model_timeouts"] > max(5, RUN_STATS["scenarios"] // 50) and not self.violations:
            # systematic: the model's state spaces are far larger than the implementation's
            self.violation("model-timeouts.txt", f"# property {self.pid}: the Lean model did not finish on {RUN_STATS['model_timeouts']} of "
                           f"{RUN_STATS['scenarios']} scenarios the implementation finished: the two explore very different state spaces\n", no_input=True)
        ev = {
            "property_id": self.pid, "tier": self.tier, "seed": self.seed, "level": "proof",
            "coverage": cov, "assumptions": self.assumptions, "wall_s": round(wall, 2),
            "violations": len(self.violations),
        }
        os.makedirs(EVID, exist_ok=True)
        with open(os.path.join(EVID, f"{self.pid}.json"), "w") as f:
            json.dump(ev, f, indent=1, sort_keys=True)
            f.write("\n")
        for k in self.known:
            print(f"KNOWN-FINDING: property={self.pid} {k}")
        for path, suffix in self.violations[:20]:
            print(f"VIOLATION property={self.pid} replay={path}{suffix}")
        if self.violations:
            return 1
        print(f"OK property={self.pid} tier={self.tier} wall_s={wall:.1f}")
        return 0
