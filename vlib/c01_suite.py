"""C01: deterministic replay.  (i) static scan of hash-container iteration sites against the reviewed table;
(ii) implementation vs implementation: every scenario is executed twice inside one OS process and once more in a
second OS process, complete observation sequences compared."""
import json, os, random, re, subprocess
from . import mc_suite, sim_suite
from .common import ROOT, VH, ENV, chunks, split_blocks, hash_text, JOBS
from concurrent.futures import ThreadPoolExecutor


def static_scan(v):
    p = subprocess.run(["python3", os.path.join(ROOT, "tools", "hash_sites.py"), "/repo/src"], capture_output=True, text=True)
    sites = json.loads(p.stdout)
    table = json.load(open(os.path.join(ROOT, "vlib", "hash_sites.json")))
    new = [f"{k} (x{c})" for k, c in sites.items() if k not in table or c > table[k]["count"]]
    v.coverage.setdefault("hash_site_scan", {}).update({"sites_found": len(sites), "sites_reviewed": len(table), "unreviewed": new})
    return new


def gen_mc(rng):
    prof = mc_suite.profile(nodes=(1, 2), procs=(3, 6), locals=(2, 4), p_crash=0.6, staged=0.6, collect_always=True, depth=(2, 3),
                            p_fault=0.3, record=0.5, two_runs=0.2, caches=("full", "partial", "disabled"))
    lines = mc_suite.gen_scenario(rng, prof)
    out = []
    for l in lines:
        if l.startswith("rule") and rng.random() < 0.25:
            l += f" R:m{rng.randint(0, 2)}"
        if l.startswith("rule") and rng.random() < 0.15:
            l += f" K:m{rng.randint(0, 2)}"
        out.append(l)
    return out


def run_twice(sub, scen, jobs=None):
    """returns dict name -> (first, second, other_process)"""
    parts = chunks(scen, jobs or JOBS)

    def one(part):
        text = "".join(f"begin {n}.a\n" + "".join(x + "\n" for x in ls) + "end\n" + f"begin {n}.b\n" + "".join(x + "\n" for x in ls) + "end\n"
                       for n, ls in part)
        env = dict(ENV, VH_RAW_ORDER="1")
        p1 = subprocess.run([VH, sub], input=text, capture_output=True, text=True, env=env, timeout=3600)
        text2 = "".join(f"begin {n}.c\n" + "".join(x + "\n" for x in ls) + "end\n" for n, ls in part)
        p2 = subprocess.run([VH, sub], input=text2, capture_output=True, text=True, env=env, timeout=3600)
        return split_blocks(p1.stdout), split_blocks(p2.stdout)

    res = {}
    with ThreadPoolExecutor(max_workers=jobs or JOBS) as ex:
        for b1, b2 in ex.map(one, parts):
            for k in b1:
                if k.endswith(".a"):
                    n = k[:-2]
                    np = lambda ls: [l for l in ls if not l.startswith("PANIC ")]     # (panic texts are for the monitors)
                    res[n] = (np(b1.get(n + ".a", [])), np(b1.get(n + ".b", [])), np(b2.get(n + ".c", [])))
    return res


def run(v, tier, seed, name="replay"):
    rng = random.Random(seed * 9973 + 1)
    nmc = 150 if tier == "quick" else 3000
    nsim = 200 if tier == "quick" else 5000
    mc_scen = mc_suite.corpus_scenarios("c01") + [(f"m{i}", gen_mc(rng)) for i in range(nmc)]
    sim_scen = [(f"s{i}", sim_suite.gen_scenario(rng, dict(procs=(3, 6), p_rand=0.4, p_clock=0.3, p_crash=0.5))) for i in range(nsim)]
    # crash of a node with several messages and timers in flight from/to it: everything the crash logs and cancels is
    # collected from hash containers and queues
    sim_scen += [(f"cb{i}", sim_suite.gen_crash_burst(rng)) for i in range(nsim // 2)]
    # Python processes that draw from `random` (seeded by PyProcessFactory::build) in the constructor and in the handlers and
    # report the values: "the random values handed to processes"
    from . import py_suite
    sim_scen += [(f"pr{i}", py_suite.gen_py_sim(rng, "pyr")) for i in range(max(20, nsim // 10))]
    # the simulation-wide generator through the System API (gen_range, random_string) between the other calls
    def with_rand(lines):
        out = []
        for l in lines:
            out.append(l)
            if l.split()[0] in ("local", "step", "steps", "crash", "recover") and rng.random() < 0.3:
                out.append("rand")
        return out
    # ModelChecker::new + one exploration in the middle of a simulation, with events pending at several nodes at the hand-over:
    # the numbering of the events taken over (hence the order of exploration, the traces, the collected states) is determined
    from . import snap_suite
    sim_scen += [(f"sn{i}", [l for l in snap_suite.gen_snapshot_scenario(rng, walk=0) if l != "refenum"]) for i in range(max(60, nsim // 10))]
    def hub(i):
        # one message in flight to each of 4–6 other nodes when the checker is created: the events taken over are numbered in one
        # definite order, whatever order the node table is iterated in
        k = rng.randint(4, 6)
        seed = rng.randrange(12)
        ls = [f"seed {seed}", f"draws {sim_suite.draws_for(seed)}"] + [f"node n{j}" for j in range(k + 1)] + [f"proc p{j} n{j}" for j in range(k + 1)]
        ls.append("rule p0 0 L:m0 1 " + " ".join(f"S:m1:=x{j}:p{j}" for j in range(1, k + 1)))
        ls += [f"rule p{j} 0 M:m1 1 L:m2:$" for j in range(1, k + 1)]
        ls += [f"net delays {rng.choice([1, 2])} {rng.choice([3, 4])}", "local p0 m0 =go",
               f"mc run {rng.choice(['dfs', 'bfs'])} full inv=none goal=noev prune=dgt:2 collect=dgt:1", "steps 3", "obs"]
        return ls
    sim_scen += [(f"hb{i}", hub(i)) for i in range(max(12, nsim // 20))]
    sim_scen += [(f"rg{i}", with_rand(sim_suite.gen_scenario(rng, dict(procs=(2, 4), p_rand=0.3, p_crash=0.3)))) for i in range(max(30, nsim // 10))]
    nviol = 0
    nontriv = set()
    evals = 0
    for sub, scen in (("mc", mc_scen), ("sim", sim_scen)):
        res = run_twice(sub, scen)
        for nm, lines in scen:
            a, b, c = res.get(nm, ([], [], []))
            evals += 3
            if len(a) > 6 and not any("capped" in l for l in a):
                nontriv.add(hash_text("\n".join(lines)))
            if any("capped" in l for l in a + b + c):
                continue
            if a != b or a != c:
                which = "two executions in one OS process" if a != b else "executions in two OS processes"
                other = b if a != b else c
                k = next((j for j, (x, y) in enumerate(zip(a, other)) if x != y), min(len(a), len(other)))
                v.violation(f"{name}-{sub}-{nm}.txt",
                            f"# property {v.pid}: the same {sub} scenario gave different observable histories ({which}); first difference at line {k}\n"
                            f"#   first:  {(a[k] if k < len(a) else '-')[:400]}\n#   second: {(other[k] if k < len(other) else '-')[:400]}\n"
                            f"# replay: /verif/check {v.pid} --replay <this file>  (runs it 3x20 times)\n# engine: {sub}\n"
                            + "".join(l + "\n" for l in lines if not l.startswith("draws")))
                nviol += 1
                if nviol > 5:
                    break
    v.coverage.setdefault(name, {}).update({
        "programs": len(mc_scen) + len(sim_scen), "evaluations": evals, "distinct_nontrivial": len(nontriv),
        "rule": "model-checking scenarios (several processes per node, crash in the callback with messages pending to all of them, staged runs with "
                "many equal-depth start states, processes reading ctx.rand() and the clock, all cache modes) and simulations (seeded, random delays, "
                "faults, crashes, ctx.rand()), each executed twice in one OS process (fresh hash seeds per HashMap) and once in a second OS process; "
                "compared: the complete observation stream (order of predicate evaluations, traces, collected states, error traces, event logs, "
                "outboxes, counters, clock, random values)", "violations": nviol,
        "samples": [{"scenario": nm, "lines": l} for nm, l in mc_scen[-1:]]})
    new = static_scan(v)
    if new and nviol == 0:
        # an iteration over a hash container that is not in the reviewed table is not a violation by itself (its order may
        # not reach anything observable): the behavioural comparison is intensified instead — every scenario is executed
        # six more times (four more OS processes) — and the sites are listed in the evidence
        extra = 0
        for rnd in range(2):
            for sub, scen in (("mc", mc_scen), ("sim", sim_scen)):
                res = run_twice(sub, scen)
                for nm, lines in scen:
                    a, b, c = res.get(nm, ([], [], []))
                    extra += 3
                    if any("capped" in l for l in a + b + c):
                        continue
                    if (a != b or a != c) and nviol < 5:
                        other = b if a != b else c
                        k = next((j for j, (x, y) in enumerate(zip(a, other)) if x != y), min(len(a), len(other)))
                        v.violation(f"{name}-{sub}-{nm}.txt",
                                    f"# property {v.pid}: the same {sub} scenario gave different observable histories; first difference at line {k} "
                                    f"(new hash-container iteration sites: {new})\n#   first:  {(a[k] if k < len(a) else '-')[:400]}\n"
                                    f"#   second: {(other[k] if k < len(other) else '-')[:400]}\n# replay: /verif/check {v.pid} --replay <this file>  (runs it 3x20 times)\n"
                                    f"# engine: {sub}\n" + "".join(l + "\n" for l in lines if not l.startswith("draws")))
                        nviol += 1
        v.coverage.setdefault("hash_site_scan", {})["extra_executions_because_of_unreviewed_sites"] = extra
    return nviol


def replay(v, path):
    text = open(path).read()
    sub = "sim" if "# engine: sim" in text else "mc"
    lines = [l.strip() for l in text.splitlines() if l.strip() and not l.startswith("#")]
    if sub == "sim" and not any(l.startswith("draws") for l in lines):
        pass
    for r in range(20):
        res = run_twice(sub, [("x", lines)], jobs=1)
        a, b, c = res["x"]
        if a != b or a != c:
            print("non-deterministic at repetition", r)
            v.violation("replay.txt", text)
            return
    print("60 executions identical")
