"""Property-level logic on top of the MC correspondence: reference-semantics judgement, the D1
known-finding rule, cross-strategy / cross-cache comparisons on the implementation itself."""
import random, re
from . import mc_suite
from .common import known_findings, run_pair, hash_text
from .shrink import shrink

COMBOS = [(s, c) for s in ("dfs", "bfs") for c in ("full", "partial", "disabled")]


def with_all_combos(lines, combos=COMBOS):
    """replace the single `run` line by one run per (strategy, cache) combination (callbacks repeated)"""
    pre = [l for l in lines if not l.startswith(("cb ", "run", "runfrom"))]
    cbs = [l for l in lines if l.startswith("cb ")]
    run = [l for l in lines if l.startswith("run ")][0].split()
    out = list(pre)
    for s, c in combos:
        out += cbs + [" ".join(["run", s, c] + run[3:])]
    return out


def has_finding(pid, key):
    return any(f["kind"] == "finding" and f["property"] == pid and f["key"] == key for f in known_findings())


def keyset(run, fields=("N", "E", "A")):
    return set(mc_suite.project(l, list(fields), False) for l in run["E"])


def judge_against_reference(v, scen, impl, model, name, d1_text):
    """For scenarios that carry `refenum`: compare the implementation's evaluated (process-visible) state set
    with the independent enumeration of the reference semantics.  Returns number of violations."""
    nviol = nknown = ncompared = 0
    for nm, lines in scen:
        if "refenum" not in lines:
            continue
        a, b = impl.get(nm, []), model.get(nm, [])
        if any("capped" in l for l in a):
            continue
        ri, rs, rm = mc_suite.split_runs(a), mc_suite.ref_sets(b), mc_suite.split_runs(b)
        for k, (x, y, z) in enumerate(zip(ri, rs, rm)):
            if y["rres"] is None or y["rres"] in ("capped", "cb-impossible") or y["vres"] in ("fuel", "panic"):
                continue
            impl_ok = "result=ok" in x["hdr"]
            impl_err = "result=err" in x["hdr"]
            P = set(mc_suite.proj_ref(l) for l in x["E"])
            PM = set(mc_suite.proj_ref(l) for l in z["E"])
            ref_ok = y["rres"] == "ok"
            ncompared += 1
            # internal consistency of the machinery: reference variant of the model == enumerated RefSpec
            if ref_ok and y["vres"] == "ok" and y["V"] != y["R"]:
                v.violation(f"{name}-machinery-{nm}.txt".replace(":", "_"),
                            "# the reference variant of the Lean model and the RefSpec enumerator disagree: the check's own "
                            "specification is inconsistent on this scenario (not a statement about the code)\n"
                            + "".join(l + "\n" for l in lines), no_input=True)
                nviol += 1
                continue
            agree = (impl_ok and ref_ok and P == y["R"]) or (impl_err and not ref_ok)
            if agree:
                continue
            d1 = (x["hdr"].split()[2] == z["hdr"].split()[2] and P == PM and
                  ((ref_ok and y["vres"] == "ok" and y["V"] == y["R"]) or (not ref_ok and y["vres"].startswith("err"))))
            if d1:
                # the scenario re-sets a pending timer: the implementation follows the defective model variant exactly.
                # For the properties that list D1 this is the known finding; for the others the reference comparison
                # says nothing about the property on such a scenario and is skipped.
                nknown += 1
                if has_finding(v.pid, "D1-override-leaves-old"):
                    v.known_finding(d1_text)
                continue
            missing = sorted(y["R"] - P)[:2] if ref_ok else []
            extra = sorted(P - y["R"])[:2] if ref_ok else []
            v.violation(f"{name}-reference-{nm}-run{k}.txt".replace(":", "_"),
                        f"# property {v.pid}: the implementation's exploration differs from the reference semantics\n"
                        f"# run {k}: implementation `{x['hdr']}`, reference enumeration result `{y['rres']}`\n"
                        f"# states the reference reaches that the implementation never evaluated: {missing}\n"
                        f"# states the implementation evaluated that the reference cannot reach: {extra}\n"
                        f"# replay: /verif/check {v.pid} --replay <this file>\n" + "".join(l + "\n" for l in lines))
            nviol += 1
    cov = v.coverage.setdefault(name, {})
    cov.update({"reference_runs_compared": ncompared, "reference_known_finding_D1_runs": nknown,
                "reference_violations": nviol})
    return nviol


def judge_cross(v, scen, impl, model, name, what, d1_text):
    """impl-vs-impl: runs of one scenario (all strategy x cache combinations) must agree on result kind and on
    the set of evaluated state keys."""
    nviol = nknown = ncmp = 0
    for nm, lines in scen:
        if not nm.startswith("x"):
            continue
        a, b = impl.get(nm, []), model.get(nm, [])
        if any("capped" in l or "panic" in l for l in a):
            continue
        ri, rs = mc_suite.split_runs(a), mc_suite.ref_sets(b)
        kinds = [r["hdr"].split()[2].split(":")[0] for r in ri]
        ncmp += 1
        bad = None
        if len(set(kinds)) > 1:
            bad = f"runs disagree on Ok/Err: {[r['hdr'].split()[2] for r in ri]}"
        elif kinds and kinds[0] == "result=ok":
            sets = [keyset(r) for r in ri]
            for i in range(1, len(sets)):
                if sets[i] != sets[0]:
                    bad = (f"{what}: run 0 and run {i} evaluate different sets of states "
                           f"({len(sets[0])} vs {len(sets[i])}); e.g. {sorted(sets[0] ^ sets[i])[:1]}")
                    break
        if not bad:
            continue
        # D1 rule: the reference variant of the model agrees across its runs and impl == defective model
        rm = mc_suite.split_runs(b)
        impl_eq_model = all(x["E"] == z["E"] for x, z in zip(ri, rm))
        vsets = [y["V"] for y in rs if y["vres"] == "ok"]
        ref_consistent = len(vsets) == len(rs) and all(s == vsets[0] for s in vsets)
        if impl_eq_model and ref_consistent:
            nknown += 1
            if has_finding(v.pid, "D1-override-leaves-old"):
                v.known_finding(d1_text)
            continue
        v.violation(f"{name}-cross-{nm}.txt".replace(":", "_"),
                    f"# property {v.pid}: {bad}\n# replay: /verif/check {v.pid} --replay <this file>\n"
                    + "".join(l + "\n" for l in lines))
        nviol += 1
    cov = v.coverage.setdefault(name, {})
    cov.update({"cross_scenarios_compared": ncmp, "cross_known_finding_D1": nknown, "cross_violations": nviol})
    return nviol


def mc_property(v, tier, seed, name, prof, fields=mc_suite.ALL_FIELDS, noids=False, refenum=False, cross=None,
                n_quick=400, n_thorough=6000, nontrivial=None, d1_text="", corpus=("mc",), staged=False, extra_gen=None):
    """the standard MC-level check of one property"""
    def extra(rng, tier):
        out = []
        if extra_gen:
            out += extra_gen(rng, tier)
        if cross:
            n = 120 if tier == "quick" else 2000
            for i in range(n):
                base = mc_suite.gen_scenario(rng, mc_suite.profile(**dict(prof, two_runs=0, staged=0, terminating=True)))
                out.append((f"x{i}", ["refenum"] + with_all_combos(base, cross)))
        return out
    scen, impl, model, bad = mc_suite.run(
        v, tier, seed, prof=mc_suite.profile(**dict(prof, terminating=True) if refenum else prof), n_quick=n_quick, n_thorough=n_thorough, fields=fields, noids=noids,
        name=name, corpus=corpus, extra=extra, cfg_lines=(["refenum"] if refenum else []),
        nontrivial=nontrivial or (lambda st: st["multi_states"]))
    n = len(bad)

    def judge_impl(lines, impl_out):
        # monitors used when the correspondence is broken.
        # (a) caching must not change the set of evaluated states: re-run the scenario with the cache disabled in every
        #     run and compare the implementation with itself
        if any(re.search(r"^run(from)? \S+ (full|partial) ", l) for l in lines) and not any("dgt:" in l for l in lines if l.startswith("run")):
            nocache = [re.sub(r"^(run(?:from)? \S+) (?:full|partial) ", r"\1 disabled ", l) for l in lines]
            i2, _ = run_pair("mc", [mc_suite.block("c", [l for l in lines if l != "refenum"]), mc_suite.block("d", [l for l in nocache if l != "refenum"])], jobs=1, stall=20)
            rc, rd = mc_suite.split_runs(i2.get("c", [])), mc_suite.split_runs(i2.get("d", []))
            for k, (x, y) in enumerate(zip(rc, rd)):
                if "result=ok" in x["hdr"] and "result=ok" in y["hdr"]:
                    sx, sy = keyset(x), keyset(y)
                    if sx != sy:
                        return (f"run {k}: with the visited-state cache the implementation evaluates {len(sx)} distinct states, without it {len(sy)}; "
                                f"e.g. never evaluated with the cache: {sorted(sy - sx)[:1]}")
        # (c) C10: an error reported by BFS must be at minimal depth.  The model's BFS is proved minimal
        #     (bfs_err_min_depth) and its error state comes with a trace, i.e. a genuine shallower violating state
        if v.pid == "C10":
            i3, m3 = run_pair("mc", [mc_suite.block("k", [l for l in lines if l != "refenum"])], jobs=1, stall=20)
            ri3, rm3 = mc_suite.split_runs(i3.get("k", [])), mc_suite.split_runs(m3.get("k", []))
            runlines = [l for l in lines if l.startswith(("run ", "runfrom "))]
            for k, (x, y) in enumerate(zip(ri3, rm3)):
                if k < len(runlines) and runlines[k].split()[1] == "bfs" and x["T"] and y["T"]:
                    dx, dy = re.search(r" d=(\d+)", x["T"][0]), re.search(r" d=(\d+)", y["T"][0])
                    if dx and dy and int(dx.group(1)) > int(dy.group(1)):
                        return (f"run {k}: BFS reports `{x['hdr'].split()[2]}` at depth {dx.group(1)}, but a state at depth {dy.group(1)} "
                                f"already fails: {y['T'][0][:400]}")
        # (b) does the implementation's own exploration deviate from the reference semantics on this scenario?
        ls = lines if "refenum" in lines else ["refenum"] + lines
        i, m = run_pair("mc", [mc_suite.block("j", ls)], jobs=1, stall=20)
        ri, rs = mc_suite.split_runs(i.get("j", [])), mc_suite.ref_sets(m.get("j", []))
        rmod = mc_suite.split_runs(m.get("j", []))
        for k, (x, y) in enumerate(zip(ri, rs)):
            if k < len(rmod) and x["E"] == rmod[k]["E"] and y["vres"] == "ok" and y["V"] == y["R"]:
                continue  # implementation = defective model variant, reference variant = RefSpec: finding D1, not new
            if y["rres"] == "ok" and "result=ok" in x["hdr"]:
                P = set(mc_suite.proj_ref(l) for l in x["E"])
                if P != y["R"]:
                    return (f"run {k}: the implementation's evaluated state set differs from the reference semantics "
                            f"(missing {sorted(y['R'] - P)[:1]}, extra {sorted(P - y['R'])[:1]})")
            elif y["rres"] == "ok" and "result=err" in x["hdr"]:
                return f"run {k}: the implementation reports `{x['hdr'].split()[2]}` but no reference execution fails"
            elif y["rres"] == "fail" and "result=ok" in x["hdr"]:
                return f"run {k}: the implementation reports Ok but a reference execution breaks the invariant or dead-ends"
        return None
    mc_suite.report_disagreements(v, bad, name, fields, noids, judge_impl=judge_impl)
    if refenum:
        n += judge_against_reference(v, scen, impl, model, name, d1_text)
    if cross:
        n += judge_cross(v, scen, impl, model, name, "strategies / cache modes", d1_text)
    return n


def gen_crash_merge(rng, tier):
    """C11 equality probe: stage 1 collects every state; stage 2 crashes a node in the callback and explores from all of them
    with a shared Full/Partial cache: start states that differ only in what the crashed node's processes had already done must
    stay distinct states"""
    out = []
    n = 150 if tier == "quick" else 2500
    for i in range(n):
        prof = mc_suite.profile(nodes=(2, 3), procs=(2, 4), record=0.8, staged=1.0, p_crash=0.0, p_fault=0.1, p_mode=0.0, p_link=0.0,
                                collect_always=True, two_runs=0.0, caches=("full", "partial"), locals=(1, 2))
        lines = mc_suite.gen_scenario(rng, prof)
        nodes = [l.split()[1] for l in lines if l.startswith("node ")]
        k = max(j for j, l in enumerate(lines) if l.startswith("runfrom"))
        lines = [re.sub(r"collect=\S+", "collect=always", l) if l.startswith(("run", "runfrom")) else l for l in lines]
        lines.insert(k, f"cb crash {rng.choice(nodes)}")
        out.append((f"cm{i}", lines))
    return out


def replay(v, path):
    lines = [l.strip() for l in open(path) if l.strip() and not l.startswith("#")]
    i, m = run_pair("mc", [mc_suite.block("x", lines)], jobs=1, stall=20)
    d = mc_suite.compare(i.get("x", []), m.get("x", []), lines)
    print("implementation:"); print("\n".join(l[:300] for l in i.get("x", [])[:40]))
    print("model:"); print("\n".join(l[:300] for l in m.get("x", [])[:40]))
    if d:
        print("DIFF:", d)
        v.violation("replay.txt", open(path).read())
