"""Property-level logic on top of the MC correspondence: reference-semantics judgement, the D1
known-finding rule, cross-strategy / cross-cache comparisons on the implementation itself."""
import random, re
from . import mc_suite
from .common import known_findings, run_pair, hash_text
from .shrink import shrink

COMBOS = [(s, c) for s in ("dfs", "bfs") for c in ("full", "partial", "disabled")]


def with_all_combos(lines, combos=COMBOS):
    """replace the single `run` line by one run per (strategy, cache) combination (callbacks repeated)"""
    pre = [l for l in lines if not l.startswith(("cb ", "run", "runfrom"))]
    cbs = [l for l in lines if l.startswith("cb ")]
    run = [l for l in lines if l.startswith("run ")][0].split()
    out = list(pre)
    for s, c in combos:
        out += cbs + [" ".join(["run", s, c] + run[3:])]
    return out


def has_finding(pid, key):
    return any(f["kind"] == "finding" and f["property"] == pid and f["key"] == key for f in known_findings())


def keyset(run, fields=("N", "E", "A")):
    return set(mc_suite.project(l, list(fields), False) for l in run["E"])


def judge_against_reference(v, scen, impl, model, name, d1_text):
    """For scenarios that carry `refenum`: compare the implementation's evaluated (process-visible) state set
    with the independent enumeration of the reference semantics.  Returns number of violations."""
    nviol = nknown = ncompared = 0
    for nm, lines in scen:
        if "refenum" not in lines:
            continue
        a, b = impl.get(nm, []), model.get(nm, [])
        if any("capped" in l for l in a):
            continue
        ri, rs, rm = mc_suite.split_runs(a), mc_suite.ref_sets(b), mc_suite.split_runs(b)
        for k, (x, y, z) in enumerate(zip(ri, rs, rm)):
            if y["rres"] is None or y["rres"] in ("capped", "cb-impossible") or y["vres"] in ("fuel", "panic"):
                continue
            impl_ok = "result=ok" in x["hdr"]
            impl_err = "result=err" in x["hdr"]
            P = set(mc_suite.proj_ref(l) for l in x["E"])
            PM = set(mc_suite.proj_ref(l) for l in z["E"])
            ref_ok = y["rres"] == "ok"
            ncompared += 1
            # internal consistency of the machinery: reference variant of the model == enumerated RefSpec
            if ref_ok and y["vres"] == "ok" and y["V"] != y["R"]:
                v.violation(f"{name}-machinery-{nm}.txt".replace(":", "_"),
                            "# the reference variant of the Lean model and the RefSpec enumerator disagree: the check's own "
                            "specification is inconsistent on this scenario (not a statement about the code)\n"
                            + "".join(l + "\n" for l in lines), no_input=True)
                nviol += 1
                continue
            agree = (impl_ok and ref_ok and P == y["R"]) or (impl_err and not ref_ok)
            if agree:
                continue
            d1 = (x["hdr"].split()[2] == z["hdr"].split()[2] and P == PM and
                  ((ref_ok and y["vres"] == "ok" and y["V"] == y["R"]) or (not ref_ok and y["vres"].startswith("err"))))
            if d1:
                # the scenario re-sets a pending timer: the implementation follows the defective model variant exactly.
                # For the properties that list D1 this is the known finding; for the others the reference comparison
                # says nothing about the property on such a scenario and is skipped.
                nknown += 1
                if has_finding(v.pid, "D1-override-leaves-old"):
                    v.known_finding(d1_text)
                continue
            missing = sorted(y["R"] - P)[:2] if ref_ok else []
            extra = sorted(P - y["R"])[:2] if ref_ok else []
            v.violation(f"{name}-reference-{nm}-run{k}.txt".replace(":", "_"),
                        f"# property {v.pid}: the implementation's exploration differs from the reference semantics\n"
                        f"# run {k}: implementation `{x['hdr']}`, reference enumeration result `{y['rres']}`\n"
                        f"# states the reference reaches that the implementation never evaluated: {missing}\n"
                        f"# states the implementation evaluated that the reference cannot reach: {extra}\n"
                        f"# replay: /verif/check {v.pid} --replay <this file>\n" + "".join(l + "\n" for l in lines))
            nviol += 1
    cov = v.coverage.setdefault(name, {})
    cov.update({"reference_runs_compared": ncompared, "reference_known_finding_D1_runs": nknown,
                "reference_violations": nviol})
    return nviol


def judge_cross(v, scen, impl, model, name, what, d1_text):
    """impl-vs-impl: runs of one scenario (all strategy x cache combinations) must agree on result kind and on
    the set of evaluated state keys."""
    nviol = nknown = ncmp = 0
    for nm, lines in scen:
        if not nm.startswith("x"):
            continue
        a, b = impl.get(nm, []), model.get(nm, [])
        if any("capped" in l or "panic" in l for l in a):
            continue
        ri, rs = mc_suite.split_runs(a), mc_suite.ref_sets(b)
        kinds = [r["hdr"].split()[2].split(":")[0] for r in ri]
        ncmp += 1
        bad = None
        if len(set(kinds)) > 1:
            bad = f"runs disagree on Ok/Err: {[r['hdr'].split()[2] for r in ri]}"
        elif kinds and kinds[0] == "result=ok":
            sets = [keyset(r) for r in ri]
            for i in range(1, len(sets)):
                if sets[i] != sets[0]:
                    bad = (f"{what}: run 0 and run {i} evaluate different sets of states "
                           f"({len(sets[0])} vs {len(sets[i])}); e.g. {sorted(sets[0] ^ sets[i])[:1]}")
                    break
        if not bad:
            continue
        # D1 rule: the reference variant of the model agrees across its runs and impl == defective model
        rm = mc_suite.split_runs(b)
        impl_eq_model = all(x["E"] == z["E"] for x, z in zip(ri, rm))
        vsets = [y["V"] for y in rs if y["vres"] == "ok"]
        ref_consistent = len(vsets) == len(rs) and all(s == vsets[0] for s in vsets)
        if impl_eq_model and ref_consistent:
            nknown += 1
            if has_finding(v.pid, "D1-override-leaves-old"):
                v.known_finding(d1_text)
            continue
        v.violation(f"{name}-cross-{nm}.txt".replace(":", "_"),
                    f"# property {v.pid}: {bad}\n# replay: /verif/check {v.pid} --replay <this file>\n"
                    + "".join(l + "\n" for l in lines))
        nviol += 1
    cov = v.coverage.setdefault(name, {})
    cov.update({"cross_scenarios_compared": ncmp, "cross_known_finding_D1": nknown, "cross_violations": nviol})
    return nviol


def mc_property(v, tier, seed, name, prof, fields=mc_suite.ALL_FIELDS, noids=False, refenum=False, cross=None,
                n_quick=400, n_thorough=6000, nontrivial=None, d1_text="", corpus=("mc",), staged=False, extra_gen=None):
    """the standard MC-level check of one property"""
    def extra(rng, tier):
        out = []
        if extra_gen:
            out += extra_gen(rng, tier)
        if cross:
            n = 120 if tier == "quick" else 2000
            for i in range(n):
                base = mc_suite.gen_scenario(rng, mc_suite.profile(**dict(prof, two_runs=0, staged=0, terminating=True)))
                out.append((f"x{i}", ["refenum"] + with_all_combos(base, cross)))
        return out
    scen, impl, model, bad = mc_suite.run(
        v, tier, seed, prof=mc_suite.profile(**dict(prof, terminating=True) if refenum else prof), n_quick=n_quick, n_thorough=n_thorough, fields=fields, noids=noids,
        name=name, corpus=corpus, extra=extra, cfg_lines=(["refenum"] if refenum else []),
        nontrivial=nontrivial or (lambda st: st["multi_states"]))
    n = len(bad)

    def judge_impl(lines, impl_out):
        # monitors used when the correspondence is broken.
        # (a) caching must not change the set of evaluated states: re-run the scenario with the cache disabled in every
        #     run and compare the implementation with itself
        if any(re.search(r"^run(from)? \S+ (full|partial) ", l) for l in lines) and not any("dgt:" in l for l in lines if l.startswith("run")):
            nocache = [re.sub(r"^(run(?:from)? \S+) (?:full|partial) ", r"\1 disabled ", l) for l in lines]
            i2, _ = run_pair("mc", [mc_suite.block("c", [l for l in lines if l != "refenum"]), mc_suite.block("d", [l for l in nocache if l != "refenum"])], jobs=1, stall=20)
            rc, rd = mc_suite.split_runs(i2.get("c", [])), mc_suite.split_runs(i2.get("d", []))
            for k, (x, y) in enumerate(zip(rc, rd)):
                if "result=ok" in x["hdr"] and "result=ok" in y["hdr"]:
                    sx, sy = keyset(x), keyset(y)
                    if sx != sy:
                        return (f"run {k}: with the visited-state cache the implementation evaluates {len(sx)} distinct states, without it {len(sy)}; "
                                f"e.g. never evaluated with the cache: {sorted(sy - sx)[:1]}")
        # (c) C10: an error reported by BFS must be at minimal depth.  The model's BFS is proved minimal
        #     (bfs_err_min_depth) and its error state comes with a trace, i.e. a genuine shallower violating state
        if v.pid == "C10":
            i3, m3 = run_pair("mc", [mc_suite.block("k", [l for l in lines if l != "refenum"])], jobs=1, stall=20)
            ri3, rm3 = mc_suite.split_runs(i3.get("k", [])), mc_suite.split_runs(m3.get("k", []))
            runlines = [l for l in lines if l.startswith(("run ", "runfrom "))]
            for k, (x, y) in enumerate(zip(ri3, rm3)):
                if k < len(runlines) and runlines[k].split()[1] == "bfs" and x["T"] and y["T"]:
                    dx, dy = re.search(r" d=(\d+)", x["T"][0]), re.search(r" d=(\d+)", y["T"][0])
                    if dx and dy and int(dx.group(1)) > int(dy.group(1)):
                        return (f"run {k}: BFS reports `{x['hdr'].split()[2]}` at depth {dx.group(1)}, but a state at depth {dy.group(1)} "
                                f"already fails: {y['T'][0][:400]}")
        # (h) a state's trace accounts for the state: per process the counters equal the sends / receipts in the trace, and (when no
        #     message was duplicated or corrupted on the way) every message sent was received, dropped or is still pending
        if not any(l.startswith("mc ") for l in lines):
            for l in impl_out:
                if not l.startswith(("C ", "T ")):
                    continue
                mt = re.search(r" T\[(.*)\]\s*$", l)
                mx = re.search(r" X\[(.*?)\] d=", l)
                me = re.search(r" E\[(.*?)\] A\[", l)
                if not (mt and mx):
                    continue
                ents = re.findall(r"(?<![a-z])(sent|recv|drop|dupl|corr)\(([^()]*)\)", mt.group(1))
                for pp, sc, rc in re.findall(r"(p\d+):pend=\[[^\]]*\];s=(\d+);r=(\d+)", mx.group(1)):
                    ns = sum(1 for kd, a in ents if kd == "sent" and a.split(",")[-2] == pp)
                    nr = sum(1 for kd, a in ents if kd == "recv" and a.split(",")[-1] == pp)
                    if ns != int(sc) or nr != int(rc):
                        return (f"the trace carried by a state does not lead to it: {pp} has sent {sc} / received {rc} messages, its trace "
                                f"records {ns} sends by it and {nr} deliveries to it; state: {l[:200]}")
                # replay of the message part of the trace: every delivery, loss, corruption and duplication acts on a message that is
                # in flight at that step, and what is left in flight at the end is exactly what the state holds as pending deliveries
                inflight, bad_step = {}, None
                for kd, a in ents:
                    parts = a.split(",")
                    if kd == "corr":
                        if len(parts) != 6:
                            inflight = None; break
                        ko, kc = (parts[0] + "," + parts[1], parts[4], parts[5]), (parts[2] + "," + parts[3], parts[4], parts[5])
                        if inflight.get(ko, 0) == 0:
                            bad_step = f"corrupts message {ko[0]} from {ko[1]} to {ko[2]}"; break
                        inflight[ko] -= 1; inflight[kc] = inflight.get(kc, 0) + 1
                        continue
                    if len(parts) < 4:
                        inflight = None; break
                    key = (",".join(parts[:-2]), parts[-2], parts[-1])
                    if kd == "sent":
                        inflight[key] = inflight.get(key, 0) + 1
                    elif inflight.get(key, 0) == 0:
                        bad_step = f"{ {'recv': 'delivers', 'drop': 'loses', 'dupl': 'duplicates'}[kd] } message {key[0]} from {key[1]} to {key[2]}"; break
                    elif kd == "dupl":
                        inflight[key] += 1
                    else:
                        inflight[key] -= 1
                if bad_step:
                    return (f"the trace carried by a state cannot be replayed: a step {bad_step}, which is not in flight at that point "
                            f"(never produced, already consumed, or changed by a fault); state: {l[:160]}")
                if inflight is not None and me is not None:
                    pend = {}
                    for tip, data, src, dst in re.findall(r"\d+:M\(([^,]+),(.*?),(p\d+),(p\d+),[NF]\d+\)", me.group(1)):
                        pend[(tip + "," + data, src, dst)] = pend.get((tip + "," + data, src, dst), 0) + 1
                    left = {k: n for k, n in inflight.items() if n > 0}
                    if left != pend:
                        return (f"replaying the trace carried by a state leaves {sum(left.values())} messages in flight, the state holds "
                                f"{sum(pend.values())} pending deliveries, and they are not the same messages; state: {l[:160]}")
                if not any(kd in ("dupl", "corr") for kd, _ in ents):
                    nsent = sum(1 for kd, _ in ents if kd == "sent")
                    ngone = sum(1 for kd, _ in ents if kd in ("recv", "drop"))
                    npend = len(re.findall(r"\d+:M\(", me.group(1))) if me else 0
                    if nsent != ngone + npend:
                        return (f"messages are not accounted for: the state's trace records {nsent} sends but only {ngone} deliveries/losses, "
                                f"and {npend} messages are still pending; state: {l[:200]}")
        # (g) Normal ordering mode (no `cb mode mf` for this run): a pending timer is withheld only behind an earlier pending timer
        #     of its process with a delay that is not larger; in MessagesFirst mode only while a message is pending
        def dval(tok):
            import struct
            return struct.unpack(">d", bytes.fromhex(tok[1:]))[0] if tok.startswith("x") else int(tok) * 0.5
        runs_g = mc_suite.split_runs(impl_out)
        rl_g, cbs_g, k_g = [], [], 0
        for l in lines:
            if l.startswith("cb "):
                cbs_g.append(l)
            elif l.startswith(("run ", "runfrom ")):
                rl_g.append((l, list(cbs_g))); cbs_g = []
        for k_g, (rline, cbs) in enumerate(rl_g):
            if k_g >= len(runs_g):
                break
            mf = any(c.startswith("cb mode mf") for c in cbs)
            for l in runs_g[k_g]["E"]:
                m = re.search(r" E\[(.*?)\] A\[(.*?)\] TM", l)
                if not m:
                    continue
                evs = re.findall(r"(\d+):(M|T)\(([^()]*)\)", m.group(1))
                avail = set(m.group(2).split(",")) if m.group(2) else set()
                timers = [(int(i), a.split(",")) for i, kd, a in evs if kd == "T"]
                anymsg = any(kd == "M" for _, kd, _ in evs)
                for i, (pp, nm_, d) in timers:
                    blocked = any(j < i and q == pp and dval(e) <= dval(d) for j, (q, _, e) in timers)
                    if str(i) not in avail and not blocked and not (mf and anymsg):
                        return (f"run {k_g} ({'MessagesFirst' if mf else 'Normal'} mode): timer {nm_} of {pp} (event {i}, delay {d}) is pending and no earlier "
                                f"pending timer of {pp} has a delay <= its own, yet it is not offered: {l[:300]}")
        # (f) link controls by their documentation: directional disable, partition = both directions of every cross pair,
        #     node-level incoming / outgoing, disconnect = both, reset heals all, crash_node disconnects the node
        if not any(l.startswith("runfrom") for l in lines):
            def apply(net, w):
                din, dout, links = net
                if w[0] == "disable": links.add(f"{w[1]}>{w[2]}")
                elif w[0] == "partition":
                    k = w.index("/")
                    for x in w[1:k]:
                        for y in w[k + 1:]:
                            links.add(f"{x}>{y}"); links.add(f"{y}>{x}")
                elif w[0] == "drop_in": din.add(w[1])
                elif w[0] == "drop_out": dout.add(w[1])
                elif w[0] == "disconnect": din.add(w[1]); dout.add(w[1])
                elif w[0] == "reset": din.clear(); dout.clear(); links.clear()
            base = (set(), set(), set())
            cur, k = None, 0
            runs_f = mc_suite.split_runs(impl_out)
            for l in lines:
                w = l.split()
                if w[0] == "net":
                    apply(base, w[1:])
                elif w[0] == "cb":
                    if cur is None:
                        cur = tuple(set(x) for x in base)
                    if w[1] == "net": apply(cur, w[2:])
                    elif w[1] == "crash": cur[0].add(w[2]); cur[1].add(w[2])
                elif w[0] == "run":
                    if cur is None:
                        cur = tuple(set(x) for x in base)
                    if k < len(runs_f) and runs_f[k].get("net") and runs_f[k]["E"]:
                        got = dict(kv.split("=", 1) for kv in runs_f[k]["net"].split()[1:])
                        want = {"din": cur[0], "dout": cur[1], "links": cur[2]}
                        for key, val in want.items():
                            if got.get(key) != "[" + ",".join(sorted(val)) + "]":
                                return (f"run {k}: after the callback's network operations the checker's {key} set is {got.get(key)}, by the "
                                        f"documented meaning of the link controls it is [{','.join(sorted(val))}]")
                    cur, k = None, k + 1
        # (e) a staged run shares one visited cache across its start states
        runs_e = mc_suite.split_runs(impl_out)
        rl = [l for l in lines if l.startswith(("run ", "runfrom "))]
        for k, r in enumerate(runs_e):
            if any("dupl" in l for l in lines):
                break       # the E line does not show the order inside a group of identical messages, which duplication changes
            if k > 0 and k < len(rl) and rl[k].startswith("runfrom") and " disabled " not in rl[k] + " " and "result=ok" in r["hdr"]:
                b = mc_suite.shared_cache_bound(r, len(runs_e[k - 1]["C"]))
                if b:
                    return f"run {k}: {b}"
        # (d) a pending timer carries the delay its process asked for: every T(p,name,d) in an evaluated state has a `T:name:d` or
        #     `O:name:d` action in a rule of p (pure model-checking scenarios: no snapshot timers with remaining times here)
        asked = set()
        for l in lines:
            if l.startswith("rule "):
                ws = l.split()
                for a in ws[5:]:
                    if a[:2] in ("T:", "O:") and a.count(":") == 2:
                        asked.add((ws[1], a.split(":")[1], a.split(":")[2]))
        for l in impl_out:
            if l.startswith("E "):
                em = re.search(r" E\[(.*?)\] A\[", l)
                for pp, nm_, d in re.findall(r"T\(([^,()]+),([^,()]+),([^,()]+)\)", em.group(1) if em else ""):
                    if (pp, nm_, d) not in asked:
                        return (f"a pending timer of {pp} named {nm_} is recorded with delay {d} (half units; x… = raw bits), but no rule of {pp} "
                                f"sets {nm_} with that delay: the checker orders timers by a delay the program never asked for")
        # (b) does the implementation's own exploration deviate from the reference semantics on this scenario?
        ls = lines if "refenum" in lines else ["refenum"] + lines
        i, m = run_pair("mc", [mc_suite.block("j", ls)], jobs=1, stall=20)
        ri, rs = mc_suite.split_runs(i.get("j", [])), mc_suite.ref_sets(m.get("j", []))
        rmod = mc_suite.split_runs(m.get("j", []))
        for k, (x, y) in enumerate(zip(ri, rs)):
            if k < len(rmod) and x["E"] == rmod[k]["E"] and y["vres"] == "ok" and y["V"] == y["R"]:
                continue  # implementation = defective model variant, reference variant = RefSpec: finding D1, not new
            if y["rres"] == "ok" and "result=ok" in x["hdr"]:
                P = set(mc_suite.proj_ref(l) for l in x["E"])
                if P != y["R"]:
                    return (f"run {k}: the implementation's evaluated state set differs from the reference semantics "
                            f"(missing {sorted(y['R'] - P)[:1]}, extra {sorted(P - y['R'])[:1]})")
            elif y["rres"] == "ok" and "result=panic" in x["hdr"] and k < len(rmod) and "result=panic" not in rmod[k]["hdr"]:
                return (f"run {k}: the implementation panics (an internal assertion fails) on a legal API sequence; the reference semantics "
                        f"and the model explore it without failure ({len(y['R'])} process-visible states)")
            elif y["rres"] == "ok" and "result=err" in x["hdr"]:
                return f"run {k}: the implementation reports `{x['hdr'].split()[2]}` but no reference execution fails"
            elif y["rres"] == "fail" and "result=ok" in x["hdr"]:
                return f"run {k}: the implementation reports Ok but a reference execution breaks the invariant or dead-ends"
        return None
    mc_suite.report_disagreements(v, bad, name, fields, noids, judge_impl=judge_impl)
    if refenum or any("refenum" in lines for _, lines in scen):
        # (scenarios of extra generators and of the corpus may carry their own `refenum` line)
        n += judge_against_reference(v, scen, impl, model, name, d1_text)
    if cross:
        n += judge_cross(v, scen, impl, model, name, "strategies / cache modes", d1_text)
    return n


def rand_runs_disagree(runs, combos=None):
    """the runs of one program (same predicates, different strategy / cache mode) must agree on Ok/Err and, when Ok, on the set of
    evaluated states"""
    kinds = [r["hdr"].split()[2].split(":")[0] for r in runs]
    combos = combos or [" ".join(r["hdr"].split()[:2]) for r in runs]
    if len(set(kinds)) > 1:
        return f"the runs disagree on Ok/Err: {[r['hdr'].split()[2] for r in runs]} for {combos}"
    if kinds and kinds[0] == "result=ok":
        sets = [keyset(r) for r in runs]
        for k in range(1, len(sets)):
            if sets[k] != sets[0]:
                return (f"runs {combos[0]} and {combos[k]} evaluate different sets of states ({len(sets[0])} vs {len(sets[k])}); "
                        f"e.g. {sorted(sets[0] ^ sets[k])[:1]}")
    return None


def rand_cache_probe(v, tier, seed, name="rand_cache_modes"):
    """C11, implementation against itself: processes whose handlers store `ctx.rand()` draws in their outbox.  Under the model
    checker the draws are seeded from the state, so states the checker treats as equal must still have identical futures: the
    runs with the Full, Partial and Disabled cache (DFS and BFS) must agree on Ok/Err and on the set of evaluated states.
    (The Lean model has no random draws under the model checker, so these programs are not compared with it.)"""
    from .common import run_blocks, VH, JOBS, chunks, STALL_S
    from concurrent.futures import ThreadPoolExecutor
    rng = random.Random(seed * 104729 + 11)
    n = 150 if tier == "quick" else 3000
    combos = [("dfs", "full"), ("dfs", "disabled"), ("bfs", "partial"), ("bfs", "disabled")]
    scen = []
    for i in range(n):
        base = mc_suite.gen_scenario(rng, mc_suite.profile(terminating=True, two_runs=0, staged=0, p_fault=0.4, identical_msgs=0.4, depth=(2, 4),
                                                            nodes=(1, 2), procs=(1, 3)))
        base = [l + (f" R:m{rng.randint(0, 2)}" if l.startswith("rule") and rng.random() < 0.5 else "") for l in base]
        # state-based predicates only: depth-based pruning makes the evaluated set depend on the path by design
        base = [re.sub(r"prune=\S+", "prune=none", l) if l.startswith("run") else l for l in base]
        scen.append((f"r{i}", with_all_combos(base, combos)))
    for i in range(n // 3):
        # merge template: a receiver that ignores the payload reaches the same state after `deliver` (one step) and after
        # `corrupt, deliver` (two steps); a handler that runs later in that state draws random numbers
        k = rng.randint(1, 2)
        lines = ["node n0", "node n1", "proc p0 n0"] + [f"proc p{j} n1" for j in range(1, k + 1)]
        lines.append("rule p0 0 L:m0 1 " + " ".join(f'S:m1:="q{j}":p{j}' for j in range(1, k + 1)))
        for j in range(1, k + 1):
            later = rng.choice(["timer", "msg"])
            if later == "timer":
                lines += [f"rule p{j} 0 M:m1 1 T:t1:{rng.randint(1, 2)}", f"rule p{j} 1 T:t1 2 R:m2" + rng.choice(["", " R:m3"])]
            else:
                lines += [f"rule p{j} 0 M:m1 1 S:m2:=a:p0", f"rule p{j} 1 M:m3 2 R:m2", f"rule p0 1 M:m2 1 S:m3:=b:p{j}"]
        lines += ["cb net corrupt 1", "cb local p0 m0 =go", "run dfs full inv=none goal=noev prune=none collect=none"]
        scen.append((f"rm{i}", with_all_combos(lines, combos)))
    parts = chunks([mc_suite.block(nm, l) for nm, l in scen], JOBS)
    impl = {}
    with ThreadPoolExecutor(max_workers=JOBS) as ex:
        for out, rc, err in ex.map(lambda part: run_blocks([VH, "mc"], part, STALL_S), parts):
            impl.update(out)
    nviol = ncmp = nrand = 0
    for nm, lines in scen:
        a = impl.get(nm, [])
        if not a or any("capped" in l or "panic" in l or l.endswith("-timeout") for l in a):
            continue
        runs = mc_suite.split_runs(a)
        kinds = [r["hdr"].split()[2].split(":")[0] for r in runs]
        ncmp += 1
        nrand += any(re.search(r"=[0-9a-f]{16}", l) for l in a)
        bad = rand_runs_disagree(runs, combos)
        if bad and nviol < 3:
            v.violation(f"{name}-{nm}.txt", f"# property {v.pid}: handlers use ctx.rand(), whose draws under the checker are a function of the state, so the strategies and cache modes must agree: {bad}\n"
                        f"# replay: /verif/check {v.pid} --replay <this file>\n" + "".join(l + "\n" for l in lines))
        nviol += bool(bad)
    v.coverage.setdefault(name, {}).update({"programs": ncmp, "programs_with_draws_in_states": nrand, "violations": nviol,
        "rule": "implementation vs implementation: script processes that put ctx.rand() draws into their outbox, explored with dfs/bfs x "
                "full/partial/disabled; Ok/Err and the evaluated state sets must agree"})
    return nviol


def gen_mc_link_matrix(rng, tier):
    """the checker's own link controls: a random sequence of McNetwork operations in the callback (directional disables,
    partitions in both orientations, node-level controls, reset), then every process sends to every other one"""
    out = []
    n = 120 if tier == "quick" else 3000
    for i in range(n):
        nn = rng.choice([2, 3, 3])
        nodes = [f"n{j}" for j in range(nn)]
        procs = [f"p{j}" for j in range(nn + rng.choice([0, 1]))]
        loc = {p: nodes[j % nn] for j, p in enumerate(procs)}
        lines = [f"node {x}" for x in nodes] + [f"proc {p} {loc[p]}" for p in procs]
        for p in procs:
            sends = " ".join(f"S:m1:=x{p[1]}:{q}" for q in procs if q != p)
            lines.append(f"rule {p} 0 L:m0 1 {sends}")
            lines.append(f"rule {p} 0 M:m1 0 L:m2:$")
            lines.append(f"rule {p} 1 M:m1 1 L:m2:$")
        for _ in range(rng.randint(1, 6)):
            a, b = rng.sample(nodes, 2)
            rest = [x for x in nodes if x not in (a, b)]
            lines.append("cb net " + rng.choice([f"disable {a} {b}", f"disable {b} {a}", f"partition {a} / {b}", f"partition {b} / {a}",
                                                 f"partition {a} / {' '.join([b] + rest)}", f"drop_in {a}", f"drop_out {a}", f"disconnect {a}",
                                                 "reset"]))
        for p in procs:
            lines.append(f"cb local {p} m0 =go")
        lines.append(f"run {rng.choice(['dfs', 'bfs'])} {rng.choice(['full', 'disabled'])} inv=none goal=noev prune=none collect=none")
        out.append((f"lm{i}", ["refenum"] + lines))
    return out


def gen_payload_twins(rng, tier):
    """states that differ only in the *content* of message payloads of one type and one length (and in where the boundary between
    type and payload falls): the two delivery orders of two such messages to a process that copies them to its outbox, with a
    timer still pending afterwards.  A state identity (or hash) that does not look at the whole payload merges them."""
    out = []
    n = 40 if tier == "quick" else 800
    for i in range(n):
        kind = rng.choice(["len", "boundary"])
        if kind == "len":
            t1 = t2 = "m1"; d1, d2 = rng.choice([("=a", "=b"), ("=1", "=2"), ('="x"', '="y"')])
        else:
            t1, t2 = "m1", "m11"; d1, d2 = "=12", "=2"
        lines = ["node n0", "node n1", "proc p0 n0", "proc p1 n1", "proc p2 n0"]
        # the receiver copies what it gets (type and payload) to its outbox
        lines += [f"rule p0 0 L:m0 1 S:{t1}:{d1}:p1", f"rule p2 0 L:m0 1 S:{t2}:{d2}:p1",
                  f"rule p1 0 M:{t1} 0 L:{t1}:$ O:t0:{rng.randint(1, 2)}", f"rule p1 0 T:t0 0 L:m4:=t"]
        if t2 != t1:
            lines.append(f"rule p1 0 M:{t2} 0 L:{t2}:$ O:t0:1")
        lines += ["cb local p0 m0 =go", "cb local p2 m0 =go",
                  f"run {rng.choice(['dfs', 'bfs'])} {rng.choice(['partial', 'partial', 'full'])} inv=none goal=noev prune=none collect=none"]
        out.append((f"tw{i}", ["refenum"] + lines))
    return out


def gen_crash_then_heal(rng, tier):
    """C14: crash a node in the callback, then undo the network part of the crash (`network().reset()`) and only
    then let the processes send: messages from or to the crashed node must still be dropped unconditionally"""
    out = []
    n = 80 if tier == "quick" else 2000
    for i in range(n):
        base = mc_suite.gen_scenario(rng, mc_suite.profile(p_crash=1.0, nodes=(2, 3), procs=(2, 4), p_link=0.2, p_send=0.6, p_local=0.15,
                                                            terminating=True, two_runs=0, staged=0, locals=(2, 4)))
        lines, crashed = [], None
        cbs = [l for l in base if l.startswith("cb ")]
        if not any(l.startswith("cb crash") for l in cbs):
            continue
        # the crash first, then the healing operations, then everything else
        crash = [l for l in cbs if l.startswith("cb crash")][:1]
        node = crash[0].split()[2]
        heal = ["cb net reset"]   # the only operation of McNetwork that undoes a disconnect
        rest = [l for l in cbs if l not in crash]
        for l in base:
            if l.startswith("cb "):
                continue
            if l.startswith("run"):
                lines += crash + heal + rest
            lines.append(l)
        out.append((f"ch{i}", ["refenum"] + lines))
    return out


def gen_crash_merge(rng, tier):
    """C11 equality probe: stage 1 collects every state; stage 2 crashes a node in the callback and explores from all of them
    with a shared Full/Partial cache: start states that differ only in what the crashed node's processes had already done must
    stay distinct states"""
    out = []
    n = 150 if tier == "quick" else 2500
    for i in range(n):
        prof = mc_suite.profile(nodes=(2, 3), procs=(2, 4), record=0.8, staged=1.0, p_crash=0.0, p_fault=0.1, p_mode=0.0, p_link=0.0,
                                collect_always=True, two_runs=0.0, caches=("full", "partial"), locals=(1, 2))
        lines = mc_suite.gen_scenario(rng, prof)
        nodes = [l.split()[1] for l in lines if l.startswith("node ")]
        k = max(j for j, l in enumerate(lines) if l.startswith("runfrom"))
        lines = [re.sub(r"collect=\S+", "collect=always", l) if l.startswith(("run", "runfrom")) else l for l in lines]
        lines.insert(k, f"cb crash {rng.choice(nodes)}")
        out.append((f"cm{i}", lines))
    return out


def replay(v, path):
    lines = [l.strip() for l in open(path) if l.strip() and not l.startswith("#")]
    if any(l.startswith("rule") and " R:" in l for l in lines):
        # ctx.rand() under the checker is not modelled: implementation against itself (rand_cache_probe)
        from .common import run_blocks, VH
        out, rc, err = run_blocks([VH, "mc"], [mc_suite.block("x", lines)], 60)
        a = out.get("x", [])
        print("implementation:"); print("\n".join(l[:300] for l in a[:60]))
        bad = rand_runs_disagree(mc_suite.split_runs(a))
        if bad:
            print("DISAGREE:", bad)
            v.violation("replay.txt", open(path).read())
        return
    i, m = run_pair("mc", [mc_suite.block("x", lines)], jobs=1, stall=20)
    d = mc_suite.compare(i.get("x", []), m.get("x", []), lines)
    print("implementation:"); print("\n".join(l[:300] for l in i.get("x", [])[:40]))
    print("model:"); print("\n".join(l[:300] for l in m.get("x", [])[:40]))
    if d:
        print("DIFF:", d)
        v.violation("replay.txt", open(path).read())


def gen_staged_gate(rng, tier):
    """C16/C03: a later stage whose callback changes some collected start states and leaves others as they are.  A process ignores
    the local message `go` until its warm-up timer has fired; the first stage collects every state (before and after the
    firing), the second stage sends `go` in its callback: from the start states after the firing it is handled, and what
    follows is reachable from those start states only.  (A start state that an earlier run of the same stage merely passed
    through has not been explored *after the callback*.)"""
    out = []
    for i in range(12 if tier == "quick" else 200):
        two = rng.random() < 0.6
        k = rng.randint(1, 2)
        lines = ["refenum", "node n0"] + (["node n1"] if two else []) + ["proc p0 n0", f"proc p1 {'n1' if two else 'n0'} rec"]
        lines += [f"rule p0 0 L:m0 1 T:t0:{k}", "rule p0 1 T:t0 2", f"rule p0 2 L:m1 3 S:m2:=x:p1 L:m3:=y",
                  "rule p1 0 M:m2 1 L:m4:$"]
        if rng.random() < 0.5:
            lines.append("rule p0 1 L:m1 1")        # explicitly ignored before the firing
        lines += ["cb local p0 m0 =a", f"run {rng.choice(['dfs', 'bfs'])} {rng.choice(['full', 'partial', 'disabled'])} inv=none goal=noev prune=none collect=always",
                  "cb local p0 m1 =a",
                  f"runfrom {rng.choice(['dfs', 'bfs'])} {rng.choice(['full', 'partial', 'full', 'disabled'])} inv=none goal=noev prune=none collect={rng.choice(['noev', 'always', 'out:p1:1'])}"]
        if rng.random() < 0.4:
            lines += ["cb net reset", f"runfrom {rng.choice(['dfs', 'bfs'])} full inv=none goal=noev prune=none collect=none"]
        out.append((f"sg{i}", lines))
    return out


def gen_order_sensitive(rng, tier):
    """two or three different messages race to one receiver that copies every payload to its local outbox: sibling branches reach
    outboxes of equal length and different content (what a restore has to replace, not to trim); every strategy and cache mode,
    optionally a second stage from the collected states"""
    out = []
    for i in range(10 if tier == "quick" else 150):
        k = rng.choice([2, 3])
        lines = ["refenum"] + [f"node n{j}" for j in range(k + 1)] + [f"proc p{j} n{j}" for j in range(k)] + [f"proc p{k} n{k}{' rec' if rng.random() < 0.5 else ''}"]
        for j in range(k):
            lines.append(f"rule p{j} 0 L:m0 1 S:m{j + 1}:=x{j}:p{k}")
        for j in range(k):
            lines.append(f"rule p{k} 0 M:m{j + 1} 0 L:m{j + 1}:$")
        lines += [f"cb local p{j} m0 =go" for j in range(k)]
        lines.append(f"run {rng.choice(['bfs', 'bfs', 'dfs'])} {rng.choice(['full', 'partial', 'disabled'])} inv=none goal=noev prune=none collect={rng.choice(['always', f'out:p{k}:1', 'noev'])}")
        if rng.random() < 0.5:
            lines.append(f"runfrom {rng.choice(['bfs', 'dfs'])} {rng.choice(['full', 'disabled'])} inv=none goal=noev prune=none collect=noev")
        out.append((f"os{i}", lines))
    return out


def gen_alt_goals(rng, tier):
    """goal and prune predicates with two alternatives that become true in no particular order along an exploration: the states on
    which only the first alternative holds are met after states on which only the second one holds, and the other way round
    (three different messages to one receiver under message loss; goal "two reported or nothing left")"""
    out = []
    for i in range(10 if tier == "quick" else 150):
        lines = ["refenum", "node n0", "node n1", "proc p0 n0 rec", "proc p1 n1"]
        lines += ["rule p1 0 L:m0 1 S:m1:=a:p0 S:m2:=b:p0 S:m3:=c:p0", "rule p0 0 M:m1 0 L:m1:$", "rule p0 0 M:m2 0 L:m2:$", "rule p0 0 M:m3 0 L:m3:$"]
        lines += ["cb net drop 1", "cb local p1 m0 =go"]
        k = rng.choice([1, 2])
        goal = rng.choice([f"out:p0:{k}|noev", f"noev|out:p0:{k}", f"out:p0:{k + 1}|out:p0:{k}|noev"])
        prune = rng.choice(["none", "none", f"out:p0:3|st:p1:2"])
        base = lines + [f"run dfs full inv=none goal={goal} prune={prune} collect=none"]
        out.append((f"ag{i}", with_all_combos(base, [("dfs", "full"), ("bfs", "full"), ("dfs", "disabled"), ("bfs", "disabled")])))
    return out


def gen_crash_after_dup(rng, tier):
    """C14 "pending events of other nodes are untouched": identical messages between two live nodes whose queue order differs
    from their id order (a duplication re-queued the older one behind the newer one), collected by a first stage; the second
    stage's callback crashes a third node that has a pending timer or message of its own"""
    out = []
    for i in range(12 if tier == "quick" else 200):
        lines = ["refenum", "node n0", "node n1", "node n2", "proc p0 n0", "proc p1 n1 rec", "proc p2 n2"]
        lines += ["rule p0 0 L:m0 1 S:m1:=a:p1 S:m1:=a:p1" + (" S:m1:=a:p1" if rng.random() < 0.4 else ""),
                  "rule p1 0 M:m1 0 L:m2:$", f"rule p2 0 L:m0 1 T:t0:{rng.randint(1, 3)}" + (" S:m3:=z:p1" if rng.random() < 0.5 else ""),
                  "rule p2 1 T:t0 2", "rule p1 0 M:m3 0"]
        lines += ["cb net dupl 1", "cb local p0 m0 =go", "cb local p2 m0 =go",
                  f"run {rng.choice(['dfs', 'bfs'])} {rng.choice(['full', 'disabled'])} inv=none goal=noev prune=dgt:{rng.choice([1, 2])} collect=always",
                  "cb crash n2",
                  f"runfrom {rng.choice(['dfs', 'bfs'])} {rng.choice(['full', 'disabled'])} inv=none goal=noev prune=none collect=none"]
        out.append((f"cd{i}", lines))
    return out


def gen_visited_precallback(rng, tier):
    """C16: the state a staged run really starts from is the collected state *after* the callback.  A latch is disarmed by a
    message that may be corrupted (the corrupted copy is re-queued under the same id), the first stage collects the two
    depth-1 states (delivered / corrupted copy still in flight); the second stage arms the latch in its callback: from the
    second start state the delivery leads to the first start state as it was *before* the callback, which nobody has explored"""
    out = []
    for i in range(16 if tier == "quick" else 250):
        tag = rng.choice(["=a", "=b", '="q"', '="x"y"', "=c"])
        lines = ["refenum", "node n0", "node n1", "proc p0 n0", "proc p1 n1"]
        lines += [f"rule p0 0 L:m0 1 S:m1:{tag}:p1", "rule p1 0 M:m1 0", "rule p1 1 M:m1 0", "rule p1 0 L:m2 1", "rule p1 1 L:m2 1"]
        lines += ["cb net corrupt 1", "cb local p0 m0 =go",
                  f"run {rng.choice(['dfs', 'bfs'])} {rng.choice(['full', 'partial', 'disabled'])} inv=none goal=noev prune=dgt:0 collect=dgt:0",
                  "cb local p1 m2 =arm",
                  f"runfrom {rng.choice(['dfs', 'bfs'])} {rng.choice(['full', 'partial'])} inv=none goal=noev prune=none collect=noev"]
        out.append((f"vp{i}", lines))
    return out


IDENTITY_MARK = "# probe: identity"


def identity_probe(v, tier, seed, name="identity_values", types=None):
    """implementation only (`vh eqprobe`): the public value types the checker's state identity and its grouping of identical
    messages are built from (DeliveryOptions, Message, McEvent) compare and hash by all their fields -- two values from a small
    grid are equal iff all their fields are, equal values hash alike, and the total order on messages (keys of the ordered maps of
    the dependency resolver) is consistent with equality"""
    import subprocess
    from .common import VH, ENV
    out = subprocess.run([VH, "eqprobe"], capture_output=True, text=True, env=ENV, timeout=120).stdout.splitlines()
    rows = [l for l in out if l.startswith("eqprobe ")]
    nviol = 0
    for l in rows:
        ty = re.search(r"type=(\S+)", l).group(1)
        if types and ty not in types:
            continue
        bad = l.split(" bad=", 1)[1]
        if bad != "none":
            nviol += 1
            v.violation(f"{name}-{ty}.txt", f"# property {v.pid}: values of {ty} that differ in a field are treated as the same (or equal ones hash differently): {bad}\n"
                        f"{IDENTITY_MARK}\n# replay: /verif/check {v.pid} --replay <this file>  (re-runs `vh eqprobe`)\n{l}\n")
    if not rows:
        nviol += 1
        v.violation(f"{name}-norun.txt", f"# property {v.pid}: the identity probe produced no output\n{IDENTITY_MARK}\n")
    v.coverage.setdefault(name, {}).update({"types": [l.split(" bad=")[0] for l in rows], "violations": nviol,
        "rule": "implementation only: == / Hash / Ord of DeliveryOptions, Message, McEvent on value grids vs field-wise identity"})
    return nviol


def identity_replay(v, path):
    class _V:
        pid = v.pid; coverage = {}
        def violation(self, nm, txt):
            print(txt); v.violation("replay.txt", open(path).read())
    identity_probe(_V(), "quick", 1)
