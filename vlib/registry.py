"""Property id -> suites, assumptions, trusted base."""
from . import store_suite, mc_checks, mc_suite

TRUSTED_BASE = [
    "Lean 4.33.0 kernel (thorough tier: re-checked with leanchecker); axioms per theorem as listed under coverage.axioms (allowed: propext, Classical.choice, Quot.sound)",
    "the Lean compiler/runtime for the compiled driver `asdriver` (same definitions the theorems are about)",
    "the correspondence check itself: Rust harness /verif/harness (vh), generators, canonicalisation, diff (this is differential testing: it shows agreement on the generated inputs only)",
    "the cfg(anysystem_verif) accessor hooks in /repo (add-only)",
    "all of /repo/src is modelled rather than verified: theorems are about /verif/lean/Anysystem/Model, tied to the code only by the correspondence runs of this check",
    "process programs are deterministic functions of (state, input) and are determined by the value state() returns; MC programs do not read the clock or ctx.rand()",
]
COMMON_ASSUMPTIONS = [
    "names are single-digit p*/n*/t*/m* tokens so that string order = numeric order",
]
D1 = ("D1-override-leaves-old: set_timer on a pending name leaves the old TimerFired event pending in model checking "
      "(implementation = defective model variant, contract-conforming variant = reference semantics, on scenarios that re-set a pending timer)")
PARTIAL_D1 = ("theorems about model-checking paths are proved for override-free paths only (finding D1); the full statement is "
              "refuted by the kernel-checked witness C07_D1_witness")


def mc(name, prof, **kw):
    return lambda v, tier, seed: mc_checks.mc_property(v, tier, seed, name, prof, d1_text=D1, **kw)


PROPS = {
    "C02": {"ready": True, "partial": PARTIAL_D1, "replay": mc_checks.replay,
            "suites": [mc("mc_paths", dict(collect_always=True, depth=(2, 4), caches=("full", "disabled")), refenum=True)]},
    "C03": {"ready": True, "partial": PARTIAL_D1, "replay": mc_checks.replay,
            "suites": [mc("mc_exhaustive", dict(depth=(2, 4)), refenum=True, cross=mc_checks.COMBOS, n_quick=250)]},
    "C07": {"ready": True, "partial": PARTIAL_D1, "replay": mc_checks.replay,
            "suites": [mc("mc_timers", dict(p_timer=0.6, p_send=0.2, p_cancel=0.2, same_timer_name=0.5, record=0.8, depth=(3, 5),
                                            p_fault=0.05, caches=("disabled", "full")), refenum=True,
                          nontrivial=lambda st: st["timers"])]},
    "C09": {"ready": True, "replay": mc_checks.replay,
            "suites": [mc("mc_rerun", dict(two_runs=1.0, staged=0.3))]},
    "C10": {"ready": True, "replay": mc_checks.replay, "partial": PARTIAL_D1,
            "suites": [mc("mc_bfs_dfs", dict(depth=(2, 4)), cross=[("dfs", "full"), ("bfs", "full"), ("dfs", "disabled"), ("bfs", "disabled")],
                          n_quick=200)]},
    "C11": {"ready": True, "replay": mc_checks.replay, "partial": PARTIAL_D1,
            "suites": [mc("mc_cache_modes", dict(record=0.2, identical_msgs=0.5, depth=(2, 4)),
                          cross=[("dfs", "full"), ("dfs", "partial"), ("dfs", "disabled"), ("bfs", "full"), ("bfs", "disabled")],
                          n_quick=200)]},
    "C12": {"ready": True, "replay": mc_checks.replay,
            "suites": [mc("mc_fates", dict(p_fault=0.7, p_link=0.5, p_send=0.6, p_timer=0.1, nodes=(2, 3), procs=(2, 3), depth=(2, 4)),
                          refenum=True, nontrivial=lambda st: st["faults"] and st["multi_states"])]},
    "C13": {"ready": True, "partial": PARTIAL_D1, "replay": mc_checks.replay,
            "suites": [lambda v, tier, seed: store_suite.run(v, tier, seed, only_timers=True),
                       mc("mc_timer_order", dict(p_timer=0.7, p_send=0.15, p_once=0.4, same_timer_name=0.1, p_mode=0.4, depth=(3, 5),
                                                 p_fault=0.05), refenum=True, nontrivial=lambda st: st["blocked"])]},
    "C14": {"ready": True, "replay": mc_checks.replay,
            "suites": [mc("mc_crash", dict(p_crash=1.0, nodes=(2, 3), procs=(2, 4), p_link=0.4, staged=0.5), refenum=True,
                          nontrivial=lambda st: st["crash"] and st["multi_states"])]},
    "C16": {"ready": True, "replay": mc_checks.replay,
            "partial": "theorems cover what one stage returns (collected set, status counts); union over start states and rollback of run_from_states are carried by the correspondence runs only",
            "suites": [mc("mc_staged", dict(staged=1.0, depth=(2, 4)), nontrivial=lambda st: st["staged"] and st["multi_states"])]},
    "C20": {
        "ready": True,
        "suites": [lambda v, tier, seed: store_suite.run(v, tier, seed)],
        "replay": store_suite.replay,
        "assumptions": ["legal operation = AStore.step is defined (push msg/timer, re-insert a message under an old non-live id, pop a live id, cancel_timer, cancel_proc_events); timers are never re-inserted under a fixed id"],
    },
}
