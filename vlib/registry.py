"""Property id -> suites, assumptions, trusted base."""
from . import store_suite

TRUSTED_BASE = [
    "Lean 4.33.0 kernel (thorough tier: re-checked with leanchecker); axioms per theorem as listed under coverage.axioms (allowed: propext, Classical.choice, Quot.sound)",
    "the Lean compiler/runtime for the compiled driver `asdriver` (same definitions the theorems are about)",
    "the correspondence check itself: Rust harness /verif/harness (vh), generators, canonicalisation, diff (this is differential testing: it shows agreement on the generated inputs only)",
    "the cfg(anysystem_verif) accessor hooks in /repo (add-only)",
    "all of /repo/src is modelled rather than verified: theorems are about /verif/lean/Anysystem/Model, tied to the code only by the correspondence runs of this check",
]
COMMON_ASSUMPTIONS = [
    "names are single-digit p*/n*/t*/m* tokens so that string order = numeric order",
]

PROPS = {
    "C20": {
        "ready": True,
        "suites": [lambda v, tier, seed: store_suite.run(v, tier, seed)],
        "replay": store_suite.replay,
        "assumptions": ["legal operation = AStore.step is defined (push msg/timer, re-insert a message under an old non-live id, pop a live id, cancel_timer, cancel_proc_events); timers are never re-inserted under a fixed id"],
    },
}
