"""Property id -> suites, assumptions, trusted base."""
import re
from . import store_suite, mc_checks, mc_suite, sim_suite, sim_monitors, snap_suite, c01_suite, py_suite

TRUSTED_BASE = [
    "Lean 4.33.0 kernel (thorough tier: re-checked with leanchecker); axioms per theorem as listed under coverage.axioms (allowed: propext, Classical.choice, Quot.sound)",
    "the Lean compiler/runtime for the compiled driver `asdriver` (same definitions the theorems are about)",
    "the correspondence check itself: Rust harness /verif/harness (vh), generators, canonicalisation, diff (this is differential testing: it shows agreement on the generated inputs only)",
    "the cfg(anysystem_verif) accessor hooks in /repo (add-only)",
    "all of /repo/src is modelled rather than verified: theorems are about /verif/lean/Anysystem/Model, tied to the code only by the correspondence runs of this check",
    "process programs are deterministic functions of (state, input) and are determined by the value state() returns; MC programs do not read the clock or ctx.rand()",
]
COMMON_ASSUMPTIONS = [
    "names are single-digit p*/n*/t*/m* tokens so that string order = numeric order",
]
D1 = ("D1-override-leaves-old: set_timer on a pending name leaves the old TimerFired event pending in model checking "
      "(implementation = defective model variant, contract-conforming variant = reference semantics, on scenarios that re-set a pending timer)")
PARTIAL_D1 = ("theorems about model-checking paths are proved for override-free paths only (finding D1); the full statement is "
              "refuted by the kernel-checked witness C07_D1_witness")


def mc(name, prof, **kw):
    return lambda v, tier, seed: mc_checks.mc_property(v, tier, seed, name, prof, d1_text=D1, **kw)


def sim(name, which, prof=None, n_quick=600, n_thorough=30000, nontrivial=None, extra=None):
    def run(v, tier, seed):
        mon = (lambda lines, impl: sim_monitors.monitor(lines, impl, which)) if which else None
        scen, impl, model, bad, monfail = sim_suite.run(v, tier, seed, prof=prof, n_quick=n_quick, n_thorough=n_thorough, name=name,
                                                        monitor=mon, nontrivial=nontrivial or (lambda st: st["received"]), extra=extra)
        sim_suite.report(v, bad, monfail, name, monitor=mon)
        return len(bad) + len(monfail)
    return run


def sim_replay(v, path):
    from .common import run_pair
    lines = [l.strip() for l in open(path) if l.strip() and not l.startswith("#")]
    i, m = run_pair("sim", [sim_suite.block("x", lines)], jobs=1, stall=20)
    d = sim_suite.compare(i.get("x", []), [l for l in m.get("x", []) if not l.startswith(("vres=", "V ", "R "))])
    print("\n".join(l[:300] for l in i.get("x", [])[:60]))
    mon = sim_monitors.monitor(lines, i.get("x", []), v.pid)
    if d or mon:
        print("DIFF:", d, "MONITOR:", mon)
        v.violation("replay.txt", open(path).read())


def snapshot_check(walk, routes, fp=False, transparent=False):
    def run(v, tier, seed):
        scen, impl, model, bad = snap_suite.run_snapshot(v, tier, seed, walk=walk)
        # the monitors on the implementation's own output (remaining timer time, in-flight copies, network settings) run on
        # every scenario, whether the correspondence holds on it or not; a failing one is shrunk with respect to the monitor
        monfail = []
        for nm, lines in scen:
            msg = snap_suite.snapshot_monitor(lines, impl.get(nm, []))
            if msg:
                monfail.append((nm, lines, msg))
        monnames = {m[0] for m in monfail}
        snap_suite.report(v, [b for b in bad if b[0] not in monnames], "snapshot", monitor=snap_suite.snapshot_monitor, monfail=monfail)
        n = len(bad) + len([m for m in monfail if m[0] not in {b[0] for b in bad}])
        nmon = len(scen)
        v.coverage.setdefault("snapshot", {})["remaining_time_monitor_scenarios"] = nmon
        if walk:
            n += snap_suite.judge_sim_path_covered(v, scen, impl, model, "snapshot", D1)
            if bad:
                # the correspondence broke: search for a failing input -- the disagreeing scenarios again under other simulation seeds
                # (other delays, other orders of arrival), each judged by the walk monitor on the implementation's own output
                import random as _r
                from .common import run_pair
                rng = _r.Random(seed * 31 + 7)
                scen2 = []
                for nm, lines, _d in bad[:4]:
                    for k in range(40):
                        s = rng.randrange(sim_suite.DEFAULT["seeds"])
                        ls = [f"seed {s}" if l.startswith("seed ") else f"draws {sim_suite.draws_for(s)}" if l.startswith("draws ") else l for l in lines]
                        cut = max((j for j, l in enumerate(ls) if l.startswith("mc run")), default=None)
                        if cut is None:
                            continue
                        # a longer walk after the exploration: a projection after every simulator step
                        scen2.append((f"{nm}-reseed{k}", ls[:cut + 1] + ["step", "proj"] * 6 + ["obs"]))
                impl2, model2 = run_pair("sim", [sim_suite.block(nm, l) for nm, l in scen2])
                n += snap_suite.judge_sim_path_covered(v, scen2, impl2, model2, "snapshot_reseeded", D1)
        if routes:
            n += snap_suite.run_two_routes(v, tier, seed)
            n += snap_suite.run_clock_routes(v, tier, seed)
        if fp:
            n += snap_suite.fp_probe(v, tier, seed)
        if transparent:
            n += snap_suite.judge_mc_transparent(v, scen, impl, "snapshot")
        return n
    return run


def routes_replay(v, path):
    """replay of a two-routes file: route A (simulator prefix) as plain lines, route B (callback) as `# ` lines"""
    from .common import run_blocks, VH
    txt = open(path).read().splitlines()
    ia, ib = txt.index("# route A (simulator prefix):"), txt.index("# route B (callback):")
    A = [l for l in txt[ia + 1:ib] if l.strip() and not l.startswith("#")]
    B = [l[2:] for l in txt[ib + 1:] if l.startswith("# ") and l[2:].strip()]
    for L in (A, B):
        if not any(l.startswith("draws") for l in L):
            seed = next((int(l.split()[1]) for l in L if l.startswith("seed ")), 1)
            L.insert(1, f"draws {sim_suite.draws_for(seed)}")
    o, _, _ = run_blocks([VH, "sim"], [sim_suite.block("a", A), sim_suite.block("b", B)], 60)
    def summ(out):
        r = [l for l in out if l.startswith("run ")]
        return (r[0].split()[2] if r else None, set(snap_suite.nproj(l) for l in out if l.startswith("E ")))
    sa, sb = summ(o.get("a", [])), summ(o.get("b", []))
    print(f"route A: {sa[0]} {len(sa[1])} states; route B: {sb[0]} {len(sb[1])} states; only in one: {len(sa[1] ^ sb[1])}")
    if sa != sb:
        print("the two routes differ (for the `routes` suite the check additionally classifies differences caused by findings D1/D15 with "
              "the model's reference variants; this replay shows the raw difference)")
        v.violation("replay.txt", open(path).read())


def auto_replay(v, path):
    """replay file of either engine"""
    if "# route B (callback):" in open(path).read():
        return routes_replay(v, path)
    if mc_checks.IDENTITY_MARK in open(path).read():
        return mc_checks.identity_replay(v, path)
    if snap_suite.MC_CLOCK_MARK in open(path).read():
        return snap_suite.mc_clock_replay(v, path)
    lines = [l.strip() for l in open(path) if l.strip() and not l.startswith("#")]
    if lines and all(l.split()[0] in ("pm", "pt", "rm", "pop", "ct", "cp", "cfg", "mode", "avail") for l in lines[:3]):
        return store_suite.replay(v, path)
    if any(l.startswith(("run ", "runfrom ", "cb ")) for l in lines) and not any(l.startswith(("seed", "draws", "mc run")) for l in lines):
        return mc_checks.replay(v, path)
    return sim_replay(v, path)


def pred_check(v, tier, seed):
    fields = mc_suite.ALL_FIELDS + ("P",)
    scen, impl, model, bad = mc_suite.run(v, tier, seed, prof=mc_suite.profile(staged=0.4, two_runs=0.3, p_crash=0.2), n_quick=500,
                                          n_thorough=8000, cfg_lines=["preds"], name="predicates", fields=fields)
    def judge_impl(lines, impl_out):
        # the current-run predicates by their documentation, at the boundary parameters the harness derives from the part of
        # the trace after the latest McStarted entry (k entries, f timer firings): state_depth_current_run(k-1|k|k+1) must
        # reject exactly the first, event_happened_n_times_current_run(timer fired, f-1|f|f+1) must hold for exactly the first two
        for l in impl_out:
            if l.startswith(("E ", "T ")):
                for key, want, what in (("isdc", "100", "invariants::state_depth_current_run at (k-1, k, k+1), k = entries of the current run"),
                                        ("geh", "110", "goals::event_happened_n_times_current_run(timer fired) at (f-1, f, f+1), f = firings in the current run"),
                                        ("emp", "101001", "all_invariants / any_goal / all_goals / any_prune / any_collect / all_collects over an empty list (all: vacuously satisfied, any: not)"),
                                        ("pst", "1", "built-in predicates kept alive across the states of a run vs built afresh for the state (1 = same verdicts)")):
                    m = re.search(rf"{key}=(\w+)", l)
                    if m and m.group(1) != want:
                        return f"{what}: answers {m.group(1)}, by the documentation {want}; state: {l[:300]}"
                # prunes::sent_messages_limit by its documentation: prunes iff some process has sent more messages than the limit;
                # limits (m-1, m, m+1) around m = the largest sent-message count of any process
                ps = re.search(r"psm=([01p]{3})", l)
                cnts = [int(x) for x in re.findall(r";s=(\d+);r=", l)]
                if ps and cnts and "p" not in ps.group(1):
                    mxs = max(cnts)
                    want = "".join("1" if mxs > lim else "0" for lim in (max(mxs - 1, 0), mxs, mxs + 1))
                    if ps.group(1) != want:
                        return (f"prunes::sent_messages_limit at limits ({max(mxs - 1, 0)}, {mxs}, {mxs + 1}) with sent counts {cnts}: prunes = {ps.group(1)}, "
                                f"by the documentation {want}; state: {l[:260]}")
                # prunes::proc_permutations by its documentation: a state is pruned unless the processes' first mentions in the current
                # run follow the given order (here: all processes in name order, and in reverse name order)
                pp = re.search(r"ppp=([01p]{2}) fm=([\w.]*)", l)
                allp = sorted(set(re.findall(r"[{/](p\d+):", l.split(" E[")[0])))
                if pp and "p" not in pp.group(1) and allp:
                    fm = [x for x in pp.group(2).split(".") if x]
                    want = "".join("0" if fm == order[:len(fm)] else "1" for order in (allp, allp[::-1]))
                    if pp.group(1) != want:
                        return (f"prunes::proc_permutations for the orders {allp} and its reverse: prunes = {pp.group(1)}, by the documentation {want} "
                                f"(first mentions in the current run: {fm}); state: {l[:260]}")
                # invariants::received_messages by its documentation ("matches exactly the expected messages; duplications or
                # unexpected messages are not allowed"), for the first process and the expected sets D, D minus its first element,
                # D plus a foreign message, D = the distinct payloads of its outbox
                nm_ = re.search(r" N\[(.*?)\] E\[(.*?)\] A\[", l)
                pm = re.search(r"irm=([01p]{3})", l)
                first = re.search(r"\{([^{}/]+)", nm_.group(1)) if nm_ else None
                ob = re.search(r";o=\[(.*)\]$", first.group(1)) if first else None
                if pm and ob is not None and "p" not in pm.group(1):
                    toks = ob.group(1).split(",") if ob.group(1) else []
                    if len(toks) % 2 == 0 and all(t.startswith("=") for t in toks[1::2]) and not any(t.startswith("=") for t in toks[0::2]):
                        out = toks[1::2]
                        D = list(dict.fromkeys(out))
                        noev = nm_.group(2) == ""
                        def err(exp):
                            return (len(out) > len(exp) or (len(out) < len(exp) and noev) or len(set(out)) < len(out)
                                    or any(x not in exp for x in out))
                        want = "".join("1" if err(e) else "0" for e in (set(D), set(D[1:]), set(D + ["zz"])))
                        if pm.group(1) != want:
                            return (f"invariants::received_messages with expected sets (D, D minus first, D plus foreign), D = distinct payloads of the outbox "
                                    f"{out}: rejects = {pm.group(1)}, by the documentation {want}; state: {l[:300]}")
        return None
    mc_suite.report_disagreements(v, bad, "predicates", fields, judge_impl=judge_impl)
    # D11: at the start state of a run (depth in the current run = 0) `state_depth_current_run(0)` must accept by its
    # documentation; the code counts trace entries (the McStarted entry included) and rejects
    n11 = nstart = nevals = 0
    for nm, lines in scen:
        runs = mc_suite.split_runs(impl.get(nm, []))
        runlines = [l for l in lines if l.startswith(("run ", "runfrom "))]
        for k, r in enumerate(runs):
            nevals += len(r["E"]) * 40
            if k < len(runlines) and runlines[k].startswith("run ") and r["E"]:
                nstart += 1
                m = re.search(r"isd0=(\d)", r["E"][0])
                if m and m.group(1) == "1":
                    n11 += 1
    if n11:
        if mc_checks.has_finding(v.pid, "D11-depth-current-run"):
            v.known_finding("D11-depth-current-run: invariants::state_depth_current_run(0) rejects the start state of a run "
                            f"(observed at {n11} of {nstart} run start states)")
        else:
            v.violation("predicates-D11.txt", "# state_depth_current_run(0) rejects the start state of a run\n")
            return len(bad) + 1
    v.coverage.setdefault("predicates", {}).update({"predicate_evaluations": nevals, "run_start_states_checked": nstart,
                                                    "known_finding_D11_hits": n11})
    return len(bad)


PROPS = {
    "C01": {"ready": True, "replay": c01_suite.replay, "suites": [lambda v, tier, seed: c01_suite.run(v, tier, seed)],
            "partial": "cross-process determinism of DefaultHasher/Pcg64 and the order of equal-depth start states are observed, not proved; "
                       "the theorems cover the hash-order independence of dump_events/snapshot and of crash_node"},
    "C04": {"ready": True, "partial": PARTIAL_D1 + "; the end-to-end theorems (simulated run after the snapshot is covered by an Ok exploration) are sim_run_covered_partial (duplication and corruption rates zero, any drop rate) and sim_run_covered_fates (arbitrary rates, under FreshSendsFrom: when the network can duplicate or corrupt, no handler sends a message whose (message, sender, receiver) triple or that of its corruption is already in the air); both assume no crash/recover after the snapshot, exact time arithmetic (finding D16 is where f64 breaks it) and goal/prune only at states without pending events; finding D17 (an identical message in flight blocks the faults of a later identical one) shows that FreshSendsFrom is genuinely needed: the full statement fails there on the real code; with crashes the inclusion is checked on the implementation (simulated walks) only",
            "replay": sim_replay, "suites": [snapshot_check(walk=10, routes=False, fp=True)]},
    "C05": {"ready": True, "replay": auto_replay,
            "suites": [sim("sim_network", "C05", dict(p_fault=0.6, p_link=0.6, p_crash=0.3, nodes=(2, 3), procs=(2, 4)),
                           nontrivial=lambda st: st["received"] and (st["faults_on"] or st["links"]),
                           extra=lambda rng, tier: [(f"lm{i}", sim_suite.gen_link_matrix(rng)) for i in range(300 if tier == "quick" else 6000)] +
                                                   [(f"dc{i}", sim_suite.gen_dup_corrupt(rng)) for i in range(60 if tier == "quick" else 1200)]),
                       mc("mc_links", dict(p_link=0.7, p_fault=0.2, nodes=(2, 3), procs=(2, 4), p_send=0.6, p_timer=0.1), refenum=True, n_quick=100, n_thorough=1500,
                          extra_gen=mc_checks.gen_mc_link_matrix, nontrivial=lambda st: st["multi_states"])]},
    "C06": {"ready": True, "replay": auto_replay,
            "suites": [sim_suite.time_laws_probe, sim("sim_time", "C06", dict(p_random_delay=0.7, p_skew=0.6, p_clock=0.4, p_crash=0.1),
                           nontrivial=lambda st: st["received"] and st["timers_fired"],
                           extra=lambda rng, tier: [(f"sk{i}", sim_suite.gen_skew_recover(rng)) for i in range(150 if tier == "quick" else 3000)] +
                                                   [(f"nt{i}", sim_suite.gen_near_ties(rng)) for i in range(60 if tier == "quick" else 1200)]),
                       py_suite.sim_twin]},
    "C08": {"ready": True, "replay": sim_replay,
            "suites": [sim("sim_crash", "C08", dict(p_crash=0.9, nodes=(2, 3), procs=(2, 4), ops=(10, 24)),
                           nontrivial=lambda st: st["crash"] and st["received"],
                           extra=lambda rng, tier: [(f"cb{i}", sim_suite.gen_crash_burst(rng)) for i in range(150 if tier == "quick" else 3000)] +
                                                   [(f"td{i}", sim_suite.gen_two_down(rng)) for i in range(40 if tier == "quick" else 800)])]},
    "C15": {"ready": True, "replay": auto_replay, "suites": [snapshot_check(walk=0, routes=True, fp=True)]},
    "C17": {"ready": True, "replay": sim_replay,
            "partial": "whole-run invariants are proved for the per-process logs/counters (LogInv) and the global trace (TraceInv: ids, network counters, traffic, single fate exactly for duplication-free sends, at most 3 otherwise); the times recorded in the global trace and in the per-process event logs are theorems (trace_times_sorted, LogTimeInv, step_log_times); the per-copy fate under duplication is judged by the monitor and the bit-exact correspondence",
            "suites": [sim("sim_logs", "C17", dict(p_fault=0.5, p_crash=0.4, p_link=0.3, nodes=(2, 3), procs=(2, 4)),
                           nontrivial=lambda st: st["received"] and (st["dropped"] or st["crash"]),
                           extra=lambda rng, tier: [(f"cb{i}", sim_suite.gen_crash_burst(rng)) for i in range(150 if tier == "quick" else 3000)])]},
    "C18": {"ready": True, "replay": auto_replay, "suites": [lambda v, tier, seed: py_suite.run(v, tier, seed), py_suite.copy_isolation, py_suite.restore_probe, py_suite.order_probe, py_suite.unpicklable_probe, py_suite.negative_delay_probe, py_suite.sim_twin],
            "partial": "pickle, deepcopy, PyO3 conversions and JSON text are runtime behaviour covered by the correspondence runs only"},
    "C19": {"ready": True, "replay": mc_checks.replay, "suites": [pred_check],
            "partial": "state_depth_current_run is proved only in its sound half (finding D11); time_limit (wall clock) is outside the model"},
    "C02": {"ready": True, "partial": PARTIAL_D1, "replay": auto_replay,
            "suites": [mc("mc_paths", dict(collect_always=True, depth=(2, 4), caches=("full", "disabled"), staged=0.35, staged3=0.6), refenum=True,
                          extra_gen=mc_checks.gen_order_sensitive), snap_suite.mc_clock_probe]},
    "C03": {"ready": True, "partial": PARTIAL_D1, "replay": auto_replay,
            "suites": [mc("mc_exhaustive", dict(depth=(2, 4), staged=0.25, p_link=0.3, p_fault=0.45, p_send=0.5), refenum=True, cross=mc_checks.COMBOS, n_quick=250, extra_gen=mc_checks.gen_staged_gate)]},
    "C07": {"ready": True, "partial": PARTIAL_D1, "replay": auto_replay,
            "suites": [mc("mc_timers", dict(p_timer=0.45, p_send=0.25, p_local=0.05, p_cancel=0.25, p_once=0.35, same_timer_name=0.35, record=0.8,
                                            depth=(3, 5), acts=(1, 4), rules=(2, 5), locals=(1, 3), p_fault=0.05, caches=("disabled", "full")),
                          refenum=True, n_quick=700,
                          nontrivial=lambda st: st["timers"]),
                       sim("sim_timers", "C07", dict(mc=dict(p_timer=0.65, p_send=0.15, p_cancel=0.2, p_once=0.45, same_timer_name=0.6, acts=(1, 4)),
                                                     p_crash=0.05, p_link=0.05, ops=(8, 20)),
                           nontrivial=lambda st: st["timers_fired"]),
                       py_suite.sim_twin]},
    "C09": {"ready": True, "replay": auto_replay,
            "suites": [mc("mc_rerun", dict(two_runs=1.0, staged=0.3, p_link=0.4, p_fault=0.3, p_crash=0.2, nodes=(2, 3), p_send=0.5)), snapshot_check(walk=0, routes=False, transparent=True),
                       lambda v, tier, seed: py_suite.run(v, tier, seed, n_quick=60, n_thorough=800), py_suite.restore_probe]},
    "C10": {"ready": True, "replay": mc_checks.replay, "partial": PARTIAL_D1,
            "suites": [mc("mc_bfs_dfs", dict(depth=(2, 4)), cross=[("dfs", "full"), ("bfs", "full"), ("dfs", "partial"), ("bfs", "partial"), ("dfs", "disabled"), ("bfs", "disabled")],
                          n_quick=200, extra_gen=lambda rng, tier: mc_checks.gen_payload_twins(rng, tier) + mc_checks.gen_alt_goals(rng, tier)),
                       lambda v, tier, seed: mc_checks.rand_cache_probe(v, tier, seed, name="rand_bfs_dfs")]},
    "C11": {"ready": True, "replay": auto_replay, "partial": PARTIAL_D1,
            "suites": [mc("mc_cache_modes", dict(record=0.2, identical_msgs=0.5, depth=(2, 4)),
                          cross=[("dfs", "full"), ("dfs", "partial"), ("dfs", "disabled"), ("bfs", "full"), ("bfs", "disabled")],
                          n_quick=200, extra_gen=lambda rng, tier: mc_checks.gen_crash_merge(rng, tier) + mc_checks.gen_payload_twins(rng, tier)), mc_checks.rand_cache_probe, py_suite.order_probe, mc_checks.identity_probe]},
    "C12": {"ready": True, "replay": mc_checks.replay,
            "suites": [mc("mc_fates", dict(p_fault=0.7, p_link=0.5, p_send=0.6, p_timer=0.1, nodes=(2, 3), procs=(2, 3), depth=(2, 4)),
                          refenum=True, nontrivial=lambda st: st["faults"] and st["multi_states"], extra_gen=mc_checks.gen_mc_link_matrix)]},
    "C13": {"ready": True, "partial": PARTIAL_D1, "replay": auto_replay,
            "suites": [lambda v, tier, seed: store_suite.run(v, tier, seed, only_timers=True),
                       mc("mc_timer_order", dict(p_timer=0.7, p_send=0.15, p_once=0.4, same_timer_name=0.1, p_mode=0.4, depth=(3, 5),
                                                 p_fault=0.05, staged=0.3, locals=(2, 4)), refenum=True, nontrivial=lambda st: st["blocked"],
                          extra_gen=mc_checks.gen_payload_twins),
                       snapshot_check(walk=0, routes=False)]},
    "C14": {"ready": True, "replay": mc_checks.replay,
            "suites": [mc("mc_crash", dict(p_crash=1.0, nodes=(2, 3), procs=(2, 4), p_link=0.4, staged=0.5), refenum=True, extra_gen=lambda rng, tier: mc_checks.gen_crash_then_heal(rng, tier) + mc_checks.gen_crash_after_dup(rng, tier),
                          nontrivial=lambda st: st["crash"] and st["multi_states"])]},
    "C16": {"ready": True, "replay": auto_replay,
            "partial": "the union over start states is a theorem for the Disabled cache (runFromStates_disabled_concat) and for an exact shared cache with state-based predicates (runFromStates_ok_union); with path-dependent predicates and a shared cache the outcome depends on the hash order of equal-depth start states and is only observed",
            "suites": [mc("mc_staged", dict(staged=1.0, staged3=0.5, p_crash=0.3, depth=(2, 4)), extra_gen=lambda rng, tier: mc_checks.gen_staged_gate(rng, tier) + mc_checks.gen_visited_precallback(rng, tier), nontrivial=lambda st: st["staged"] and st["multi_states"])]},
    "C20": {
        "ready": True,
        "suites": [lambda v, tier, seed: store_suite.run(v, tier, seed)],
        "replay": store_suite.replay,
        "assumptions": ["legal operation = AStore.step is defined (push msg/timer, re-insert a message under an old non-live id, pop a live id, cancel_timer, cancel_proc_events); timers are never re-inserted under a fixed id"],
    },
}
