"""Delta debugging over the lines of a scenario."""


import time


def shrink(lines, fails, keep=lambda l: False, budget=200, wall_s=240):
    """Greedy ddmin: remove chunks of lines while `fails(lines)` stays true. `keep(line)` protects lines.
    Stops after `budget` trials or `wall_s` seconds, whichever comes first."""
    cur = list(lines)
    n = 2
    calls = 0
    t0 = time.time()
    budget_left = lambda: calls < budget and time.time() - t0 < wall_s
    while len(cur) >= 2 and budget_left():
        size = max(1, len(cur) // n)
        removed = False
        i = 0
        while i < len(cur) and budget_left():
            cand = [l for j, l in enumerate(cur) if not (i <= j < i + size) or keep(l)]
            if len(cand) < len(cur):
                calls += 1
                if fails(cand):
                    cur = cand
                    removed = True
                    continue
            i += size
        if not removed:
            if size == 1:
                break
            n = min(len(cur), n * 2)
    return cur
