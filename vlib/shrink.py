"""Delta debugging over the lines of a scenario."""


def shrink(lines, fails, keep=lambda l: False, budget=200):
    """Greedy ddmin: remove chunks of lines while `fails(lines)` stays true. `keep(line)` protects lines."""
    cur = list(lines)
    n = 2
    calls = 0
    while len(cur) >= 2 and calls < budget:
        size = max(1, len(cur) // n)
        removed = False
        i = 0
        while i < len(cur) and calls < budget:
            cand = [l for j, l in enumerate(cur) if not (i <= j < i + size) or keep(l)]
            if len(cand) < len(cur):
                calls += 1
                if fails(cand):
                    cur = cand
                    removed = True
                    continue
            i += size
        if not removed:
            if size == 1:
                break
            n = min(len(cur), n * 2)
    return cur
