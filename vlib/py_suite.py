"""C18: Python processes through the real PyO3 bridge vs (a) the Lean model of the relay (canonical order),
(b) the Rust twin process that issues the same calls in canonical order (implementation vs implementation)."""
import random, re
from . import mc_suite
from .common import THOROUGH_SCALE, run_pair, hash_text

PROF = dict(json_payloads=True, nodes=(1, 2), procs=(1, 3), depth=(2, 4), p_local=0.3, p_send=0.3, p_timer=0.3, p_cancel=0.1,
            two_runs=0.3, staged=0.0, acts=(1, 4), p_fault=0.15, p_crash=0.1)


def strip_state(line):
    return re.sub(r"(p\d+):[^;/\]]*;o=", r"\1:;o=", line)


def swap_kind(lines, frm, to):
    return [re.sub(rf" {frm}$", f" {to}", l) if l.startswith("proc ") else l for l in lines]


def run(v, tier, seed, name="python_bridge", n_quick=120, n_thorough=2500):
    rng = random.Random(seed * 6151 + 3)
    n = n_quick if tier == "quick" else n_thorough * THOROUGH_SCALE
    scen = []
    for i in range(n):
        kind = "py" if i % 3 != 2 else "pyd"
        prof = mc_suite.profile(**dict(PROF, proc_kind=kind, record=1.0 if kind == "pyd" else 0.5))
        lines = mc_suite.gen_scenario(rng, prof)
        # the triggering payload of a timer is empty, which is not a JSON text: no echo in timer rules
        lines = [l.replace(":$", ':="e"') if l.startswith("rule") and " T:" in l.split(" ", 4)[3:4][0:1].__str__() or (l.startswith("rule") and l.split()[3].startswith("T:")) else l for l in lines]
        if kind == "pyd":
            # the pickle-based state string cannot be parsed by the `st:` atoms of the harness predicates
            lines = [re.sub(r"st:(p\d):\d", r"out:\1:1", l) if l.startswith(("run", "runfrom")) else l for l in lines]
        scen.append((f"{kind}{i}", lines))
        scen.append((f"tw{i}", swap_kind(lines, kind, "canon")))
    impl, model = run_pair("mc", [mc_suite.block(nm, l) for nm, l in scen], jobs=8)
    bad_model, bad_twin, nontriv, states, capped = [], [], set(), 0, 0
    for i in range(n):
        kind = "py" if i % 3 != 2 else "pyd"
        # (panic messages of a Python and a Rust process differ in wording: the `PANIC` lines are for the monitors only)
        a = [l for l in impl.get(f"{kind}{i}", []) if not l.startswith("PANIC ")]
        t = [l for l in impl.get(f"tw{i}", []) if not l.startswith("PANIC ")]
        lines = scen[2 * i][1]
        if any("capped" in l for l in a + t):
            capped += 1; continue
        states += sum(1 for l in a if l.startswith("E "))
        if sum(1 for l in a if l.startswith("E ")) > 3:
            nontriv.add(hash_text("\n".join(lines)))
        if kind == "py":
            d = mc_suite.compare(a, model.get(f"py{i}", []), lines)
            if d:
                bad_model.append((f"py{i}", lines, d))
            if a != t:
                k = next((j for j, (x, y) in enumerate(zip(a, t)) if x != y), min(len(a), len(t)))
                bad_twin.append((f"py{i}", lines, f"Python process and Rust twin differ at observation line {k}:\n#   python: {(a[k] if k < len(a) else '-')[:500]}\n#   rust:   {(t[k] if k < len(t) else '-')[:500]}"))
        else:
            def canon(ls):
                out, cblock = [], []
                for l in [strip_state(x) for x in ls]:
                    if l.startswith("C "):
                        cblock.append(l)
                    else:
                        out += sorted(cblock) + [l]; cblock = []
                return out + sorted(cblock)
            sa, st = canon(a), canon(t)
            if sa != st:
                k = next((j for j, (x, y) in enumerate(zip(sa, st)) if x != y), min(len(sa), len(st)))
                bad_twin.append((f"pyd{i}", lines, f"Python process (default pickle state) and Rust twin differ at line {k}:\n#   python: {(sa[k] if k < len(sa) else '-')[:500]}\n#   rust:   {(st[k] if k < len(st) else '-')[:500]}"))
    for nm, lines, d in (bad_twin + bad_model)[:4]:
        twin = nm in [x[0] for x in bad_twin]
        v.violation(f"{name}-{nm}.txt",
                    f"# property {v.pid}: " + ("a Python process behaves differently from the equivalent Rust process\n" if twin else
                                               "the real Python bridge deviates from the Lean model of the relay\n") + f"# {d}\n"
                    + f"# replay: /verif/check {v.pid} --replay <this file>\n" + "".join(l + "\n" for l in lines),
                    no_input=not twin)
    v.coverage.setdefault(name, {}).update({
        "programs": n - capped, "capped_discarded": capped, "evaluations": states, "distinct_nontrivial": len(nontriv),
        "disagreements_checked": len(bad_model) + len(bad_twin), "twin_disagreements": len(bad_twin), "model_disagreements": len(bad_model),
        "rule": "generated script systems whose processes are Python objects behind the real PyO3 bridge (vscript.ScriptProc with canonical "
                "state string; vscript.ScriptProcDefault with the library's pickle state and list/nested/lazy attributes), explored by the "
                "real model checker; compared with the Lean model (exact) and with the Rust twin issuing the same calls in canonical order "
                "(exact resp. modulo the state text); JSON payloads; re-runs on the same checker exercise save/restore and deepcopy",
        "samples": [{"scenario": nm, "lines": l} for nm, l in scen[:2]]})
    return len(bad_model) + len(bad_twin)


def copy_isolation(v, tier, seed, name="python_copy_isolation"):
    """C18 "copies made for model checking share nothing with the original", implementation against itself: Python processes with a
    custom partial state and a mutable attribute outside it (vscript.ScriptProcShared reports len(self.seen) with every local
    message).  A simulation with a `mc run` in the middle (the checker runs the handlers on its copies) must give exactly the
    observations of the same simulation without it."""
    from . import snap_suite, sim_suite
    from .common import run_blocks, VH, JOBS, chunks, STALL_S
    from concurrent.futures import ThreadPoolExecutor
    rng = random.Random(seed * 4099 + 17)
    n = 40 if tier == "quick" else 600
    scen = []
    for i in range(n):
        two = rng.random() < 0.6
        lines = ["seed 1", f"draws {sim_suite.draws_for(1)}", "node n0"] + (["node n1"] if two else [])
        p1node = "n1" if two else "n0"
        k = rng.randint(1, 3)
        lines += [f"rule p0 0 L:m0 0 S:m1:={k}:p1 T:t0:{rng.randint(1, 3)}", "rule p0 0 T:t0 0 L:m2:=2 S:m1:=5:p1",
                  "rule p1 0 M:m1 0 S:m3:=3:p0 L:m5:=7", "rule p0 0 M:m3 0 L:m4:=4", "rule p1 0 L:m0 0 S:m3:=6:p0"]
        lines += ["proc p0 n0 pys", f"proc p1 {p1node} pys", "net delay 2"]
        for _ in range(rng.randint(1, 2)):
            lines.append(f"local {rng.choice(['p0', 'p1'])} m0 =1")
        if rng.random() < 0.5:
            lines.append(rng.choice(["step", "steps 2"]))
        lines.append(f"mc run {rng.choice(['dfs', 'bfs'])} {rng.choice(['full', 'disabled'])} inv=none goal=noev prune=none collect=none")
        lines += [f"local {rng.choice(['p0', 'p1'])} m0 =1", "steps 12", "read p0", "read p1", "obs"]
        scen.append((f"ci{i}", lines))
    parts = chunks([sim_suite.block(nm, l) for nm, l in scen], JOBS)
    impl = {}
    with ThreadPoolExecutor(max_workers=JOBS) as ex:
        for o, rc, err in ex.map(lambda part: run_blocks([VH, "sim"], part, STALL_S), parts):
            impl.update(o)
    handled = sum(1 for nm, _ in scen if sum(1 for l in impl.get(nm, []) if l.startswith("E ")) > 1)
    nviol = snap_suite.judge_mc_transparent(v, scen, impl, name)
    v.coverage.setdefault(name, {}).update({"programs": len(scen), "explorations_with_handler_calls": handled,
        "rule": "Python processes (custom partial state + mutable attribute outside it) in a simulation with and without a model-checking "
                "run in the middle; all simulator observations must be identical"})
    return nviol


def order_probe(v, tier, seed):
    """C11 for Python processes with the default state: the state text is the whole identity of such a process for the checker, so
    it must tell apart what behaves differently — here a dict whose insertion order the process reports (vscript.ScriptProcOrder).
    DFS/BFS, with and without the visited cache, must evaluate the same states."""
    return restore_probe(v, tier, seed, name="python_dict_order", kind="pyo",
                         combos=[("dfs", "disabled"), ("bfs", "disabled"), ("dfs", "full"), ("bfs", "full")], send_heavy=True)


def restore_probe(v, tier, seed, name="python_state_restore", kind="pyd", combos=None, send_heavy=False):
    """C18 "saving and restoring its state round-trips every attribute", implementation against itself: Python processes with the
    library's default (pickle) state and an attribute that only exists after a timer fired (vscript.ScriptProcDefault.lazy).  DFS only
    ever restores ancestors, BFS restores arbitrary earlier states, a staged run restores collected ones: without a visited cache all
    of them must evaluate exactly the same states, *including* the processes' state texts."""
    from . import mc_checks
    from .common import run_blocks, VH, JOBS, chunks, STALL_S
    from concurrent.futures import ThreadPoolExecutor
    rng = random.Random(seed * 8191 + 29)
    n = 40 if tier == "quick" else 600
    combos = combos or [("dfs", "disabled"), ("bfs", "disabled")]
    scen = []
    for i in range(n):
        prof = mc_suite.profile(**dict(PROF, proc_kind=kind, record=0.0, p_timer=0.5, p_send=0.3, p_local=0.1, p_cancel=0.1, two_runs=0, staged=0,
                                       terminating=True, p_fault=0.0, p_crash=0.0, nodes=(1, 2), procs=(1, 2), depth=(2, 4)))
        if send_heavy:
            prof = mc_suite.profile(**dict(PROF, proc_kind=kind, record=0.0, p_timer=0.2, p_send=0.6, p_local=0.1, p_cancel=0.1, two_runs=0, staged=0,
                                           terminating=True, p_fault=0.0, p_crash=0.0, nodes=(2, 3), procs=(2, 3), depth=(2, 4), locals=(2, 3)))
        lines = mc_suite.gen_scenario(rng, prof)
        lines = [l.replace(":$", ':="e"') if l.startswith("rule") and l.split()[3].startswith("T:") else l for l in lines]
        lines = [re.sub(r"st:(p\d):\d", r"out:\1:1", l) if l.startswith(("run", "runfrom")) else l for l in lines]
        scen.append((f"rp{i}", mc_checks.with_all_combos(lines, combos)))
    parts = chunks([mc_suite.block(nm, l) for nm, l in scen], JOBS)
    impl = {}
    with ThreadPoolExecutor(max_workers=JOBS) as ex:
        for o, rc, err in ex.map(lambda part: run_blocks([VH, "mc"], part, STALL_S), parts):
            impl.update(o)
    nviol = ncmp = ntimer = 0
    for nm, lines in scen:
        a = impl.get(nm, [])
        if not a or any("capped" in l or "panic" in l or l.endswith("-timeout") for l in a):
            continue
        runs = mc_suite.split_runs(a)
        if len(runs) < 2 or not all("result=ok" in r["hdr"] for r in runs):
            continue
        ncmp += 1
        ntimer += any("tfired" in l or "T(" in l for l in a)
        sets = [set(mc_suite.project(l, ["N", "E", "A"], False) for l in r["E"]) for r in runs]
        if any(x != sets[0] for x in sets[1:]):
            sets[1] = next(x for x in sets[1:] if x != sets[0])
            nviol += 1
            if nviol <= 3:
                ex_ = sorted(sets[0] ^ sets[1])[:1]
                v.violation(f"{name}-{nm}.txt", f"# property {v.pid}: {' / '.join(s_ + ' ' + c_ for s_, c_ in combos)} evaluate different states of a system of Python processes with the "
                            f"default state: saving and restoring (or comparing) a state does not preserve exactly that state; e.g. {str(ex_)[:400]}\n"
                            f"# replay: /verif/check {v.pid} --replay <this file>\n" + "".join(l + "\n" for l in lines))
    v.coverage.setdefault(name, {}).update({"programs": ncmp, "programs_with_timers": ntimer, "violations": nviol,
        "rule": "Python processes with pickle state and a lazily created attribute; dfs vs bfs without cache must evaluate identical states incl. state texts"})
    return nviol


def gen_py_sim(rng, kind="py", p_clock=0.0):
    """a seeded simulation scenario whose processes are Python objects of the given vscript class"""
    from . import sim_suite
    lines = sim_suite.gen_scenario(rng, dict(p_clock=p_clock, p_rand=0, procs=(1, 3), mc=dict(proc_kind=kind, json_payloads=True, p_timer=0.35, p_cancel=0.1,
                                                                                      p_send=0.3, p_local=0.25, record=0.5)))
    lines = [l.replace(":$", ':="e"') if l.startswith("rule") and l.split()[3].startswith("T:") else l for l in lines]
    # payloads of local messages must be JSON texts for a Python process
    lines = [re.sub(r" =([ab])$", r' ="\1"', l) if l.startswith("local ") else l for l in lines]
    # the Python twin is built from the rules known when its `proc` line is executed: rules first
    head = [l for l in lines if l.startswith(("seed", "draws", "node"))]
    rules = [l for l in lines if l.startswith("rule")]
    rest = [l for l in lines if not l.startswith(("seed", "draws", "node", "rule"))]
    return head + rules + rest


def sim_twin(v, tier, seed, name="python_sim_twin", n_quick=120, n_thorough=2000):
    """Python processes in the *simulator*, implementation against itself: the same script system once with Python processes behind the
    PyO3 bridge and once with the Rust twin issuing the same calls in canonical order; seeded simulation with random delays, faults,
    crashes/recoveries, timers with every delay the generator produces (zero included), set_timer / set_timer_once / cancel_timer on
    pending and non-pending names.  Every simulator observation (return values, clock, event log entries, outboxes, counters) must be
    identical."""
    from . import sim_suite
    from .common import run_blocks, VH, JOBS, chunks, STALL_S
    from concurrent.futures import ThreadPoolExecutor
    rng = random.Random(seed * 5381 + 41)
    n = n_quick if tier == "quick" else n_thorough
    scen = []
    for i in range(n):
        lines = gen_py_sim(rng, p_clock=0.3)     # `K:` actions report the clock the framework handed to the handler
        scen.append((f"sp{i}", lines))
        scen.append((f"st{i}", swap_kind(lines, "py", "canon")))
    parts = chunks([sim_suite.block(nm, l) for nm, l in scen], JOBS)
    impl = {}
    with ThreadPoolExecutor(max_workers=JOBS) as ex:
        for o, rc, err in ex.map(lambda part: run_blocks([VH, "sim"], part, STALL_S), parts):
            impl.update(o)
    nviol = ncmp = nzero = ntimers = 0
    for i in range(n):
        a = [l for l in impl.get(f"sp{i}", []) if not l.startswith("PANIC ")]
        t = [l for l in impl.get(f"st{i}", []) if not l.startswith("PANIC ")]
        lines = scen[2 * i][1]
        if not a or not t or any("capped" in l or l.endswith("-timeout") for l in a + t):
            continue
        ncmp += 1
        ntimers += any("TF(" in l for l in a)
        nzero += any(re.search(r" [TO]:t\d:0( |$)", l) for l in lines if l.startswith("rule"))
        if a != t:
            k = next((j for j, (x, y) in enumerate(zip(a, t)) if x != y), min(len(a), len(t)))
            if nviol < 4:
                v.violation(f"{name}-sp{i}.txt",
                            f"# property {v.pid}: in the simulator a Python process behaves differently from the equivalent Rust process "
                            f"(first difference at observation {k})\n#   python: {(a[k] if k < len(a) else '-')[:500]}\n"
                            f"#   rust:   {(t[k] if k < len(t) else '-')[:500]}\n# replay: /verif/check {v.pid} --replay <this file>\n"
                            + "".join(l + "\n" for l in lines))
            nviol += 1
    v.coverage.setdefault(name, {}).update({"programs": ncmp, "with_timer_firings": ntimers, "with_zero_delay_timers": nzero, "violations": nviol,
        "rule": "seeded simulations of generated script systems, Python processes behind the real bridge vs the Rust twin; every observation "
                "of the simulator compared"})
    return nviol


def unpicklable_probe(v, tier, seed, name="python_unpicklable_state"):
    """C18 "surfaces its exceptions as handler errors" / "round-trips every attribute", the save side: a Python process with the
    default state that holds an attribute pickle cannot serialise (vscript.ScriptProcUnpicklable: a lambda).  Asking it for its
    state raises; model checking such a system must not complete as if nothing had happened (a state saved without the
    attribute loses it at the first restore)."""
    from .common import run_blocks, VH, JOBS, chunks, STALL_S
    rng = random.Random(seed * 3571 + 7)
    n = 15 if tier == "quick" else 200
    scen = []
    for i in range(n):
        prof = mc_suite.profile(**dict(PROF, proc_kind="pyu", record=0.0, two_runs=0, staged=0, terminating=True, p_fault=0.0, p_crash=0.0,
                                       nodes=(1, 2), procs=(1, 2), depth=(2, 3)))
        lines = mc_suite.gen_scenario(rng, prof)
        lines = [l.replace(":$", ':="e"') if l.startswith("rule") and l.split()[3].startswith("T:") else l for l in lines]
        lines = [re.sub(r"st:(p\d):\d", r"out:\1:1", l) if l.startswith(("run", "runfrom")) else l for l in lines]
        scen.append((f"up{i}", lines))
    o, _, _ = run_blocks([VH, "mc"], [mc_suite.block(nm, l) for nm, l in scen], STALL_S)
    nviol = ncmp = 0
    for nm, lines in scen:
        a = o.get(nm, [])
        hdr = next((l for l in a if l.startswith("run 0")), None)
        if hdr is None:
            continue
        ncmp += 1
        if "result=ok" in hdr:
            nviol += 1
            if nviol <= 3:
                v.violation(f"{name}-{nm}.txt", f"# property {v.pid}: a Python process whose state cannot be pickled (it holds a lambda) was model checked to "
                            f"completion (`{hdr}`): the exception raised by saving its state was not surfaced\n"
                            f"# replay: /verif/check {v.pid} --replay <this file>\n" + "".join(l + "\n" for l in lines))
    v.coverage.setdefault(name, {}).update({"programs": ncmp, "violations": nviol,
        "rule": "systems of Python processes holding an unpicklable attribute: the first run must end with the process error, never with result=ok"})
    return nviol


def negative_delay_probe(v, tier, seed, name="python_negative_delay"):
    """C18 "surfaces its exceptions as handler errors": Context.set_timer / set_timer_once with a negative delay raise ValueError
    (python/anysystem.py); a Python process that asks for such a timer (vscript.ScriptProcNegative) must fail its handler — in the
    simulator the call that ran the handler ends with the process error, it does not go on as if a timer had been cancelled."""
    from . import sim_suite
    from .common import run_blocks, VH, STALL_S
    rng = random.Random(seed * 1229 + 3)
    n = 16 if tier == "quick" else 200
    scen = []
    for i in range(n):
        kind = rng.choice(["T", "O"])
        first = rng.choice(["", "T:t0:4 "])         # sometimes a timer of that name is already armed (by a regular action of an earlier rule)
        lines = ["seed 1", f"draws {sim_suite.draws_for(1)}", "node n0",
                 "rule p1 0 L:m0 1 T:t0:6", f"rule p0 0 L:m0 1 {kind}:t0:{rng.randint(0, 3)}", "rule p0 1 T:t0 2 L:m1:=\"f\"",
                 "proc p0 n0 pyn", "proc p1 n0 py", "local p1 m0 =\"a\"", "local p0 m0 =\"a\"", "steps 4", "obs"]
        scen.append((f"ng{i}", lines))
    o, _, _ = run_blocks([VH, "sim"], [sim_suite.block(nm, l) for nm, l in scen], STALL_S)
    nviol = ncmp = 0
    for nm, lines in scen:
        a = [l for l in o.get(nm, []) if not l.startswith("PANIC ")]
        rets = [l for l in a if l.startswith("ret=")]
        if len(rets) < 5:
            continue
        ncmp += 1
        # rets: node, proc p0, proc p1, local p1, local p0, …
        if not rets[4].startswith("ret=panic"):
            nviol += 1
            if nviol <= 3:
                v.violation(f"{name}-{nm}.txt", f"# property {v.pid}: a Python handler asked for a timer with a negative delay; the documented ValueError "
                            f"was not surfaced as an error of the process (the call returned `{rets[4][:80]}`)\n"
                            f"# replay: /verif/check {v.pid} --replay <this file>\n" + "".join(l + "\n" for l in lines if not l.startswith("draws")))
    v.coverage.setdefault(name, {}).update({"programs": ncmp, "violations": nviol,
        "rule": "Python processes asking for timers with negative delays: the handler call must end with the process error"})
    return nviol
