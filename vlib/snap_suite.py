"""Simulation -> snapshot -> model checking (C15, C04, C09): the real System + ModelChecker::new vs the
Lean simulator + snapshot + strategies; and impl-vs-impl route comparisons."""
import random, re, struct
from . import mc_suite, sim_suite, mc_checks
from .common import THOROUGH_SCALE, run_pair, hash_text

NRE = re.compile(r"N(\[.*?\]) (?:E|F)\[")


def nproj(line):
    m = NRE.search(line)
    return m.group(1) if m else None


def base_system(rng, prof=None):
    mprof = mc_suite.profile(**dict(dict(nodes=(1, 3), procs=(1, 3), locals=(1, 3), p_fault=0, p_link=0, p_crash=0, p_mode=0,
                                          terminating=True), **(prof or {})))
    base = mc_suite.gen_scenario(rng, mprof)
    topo = [l for l in base if l.startswith(("node", "proc"))]
    rules = [l for l in base if l.startswith("rule")]
    locals_ = [l[3:] for l in base if l.startswith("cb local")]
    return topo, rules, locals_


TIMER_HEAVY = dict(p_timer=0.5, p_cancel=0.25, p_send=0.2, p_local=0.05, p_once=0.3, same_timer_name=0.1, acts=(1, 4), rules=(2, 5),
                   locals=(2, 3), procs=(1, 3))


FAULTY = dict(nodes=(2, 3), procs=(2, 3), p_send=0.7, p_local=0.15, p_timer=0.1, acts=(1, 3), rules=(2, 4), locals=(1, 2))
SAME_NODE = dict(nodes=(1, 2), procs=(2, 4), p_send=0.6, p_local=0.15, p_timer=0.15, acts=(1, 3), rules=(2, 5), locals=(1, 3))


def gen_fault_walk(rng, walk):
    """template: at snapshot time a timer is pending whose handler sends quoted messages across nodes; two or three fault kinds
    are on, so the simulator's continuation draws combinations (intact duplicates, corrupted duplicates, drops) that the checker
    must all have explored"""
    seed = rng.randrange(12)
    k = rng.randint(1, 2)
    lines = [f"seed {seed}", f"draws {sim_suite.draws_for(seed)}", "node n0", "node n1", "proc p0 n0", "proc p1 n1 rec"]
    sends = " ".join(f'S:m{j}:="q{j}":p1' for j in range(1, k + 1))
    lines += [f"rule p0 0 L:m0 1 T:t0:{rng.randint(1, 2)}", f"rule p0 1 T:t0 2 {sends}",
              "rule p1 0 M:m1 0 L:m3:$", "rule p1 0 M:m2 0 L:m4:$"]
    lines.append(f"net delays {rng.choice([1, 2])} {rng.choice([3, 4])}")
    for kd in rng.sample(["drop", "dupl", "corrupt"], rng.choice([2, 2, 3])):
        lines.append(f"net {kd} {sim_suite.fbits(0.5)}")
    lines += ["local p0 m0 =go", "refenum", f"mc run {rng.choice(['dfs', 'bfs'])} {rng.choice(['full', 'disabled'])} inv=none goal=noev prune=none collect=none"]
    for _ in range(walk):
        lines += ["step", "proj"]
    lines += ["steps 3", "obs"]
    return lines


def gen_cut_in_flight(rng, walk):
    """template: messages are in flight between two or three nodes when a link control (or a fault rate) is switched on or off;
    then the snapshot.  What the network accepted at send time stays in flight and is delivered by the simulator, whatever
    the settings are at snapshot time."""
    seed = rng.randrange(12)
    nn = rng.choice([2, 3])
    nodes = [f"n{i}" for i in range(nn)]
    procs = [f"p{i}" for i in range(nn)]
    lines = [f"seed {seed}", f"draws {sim_suite.draws_for(seed)}"] + [f"node {n}" for n in nodes] + [f"proc p{i} n{i}{' rec' if rng.random() < 0.5 else ''}" for i in range(nn)]
    for i, p in enumerate(procs):
        others = [q for q in procs if q != p]
        sends = " ".join(f"S:m1:=x{i}{j}:{rng.choice(others)}" for j in range(rng.randint(1, 2)))
        lines += [f"rule {p} 0 L:m0 0 {sends}", f"rule {p} 0 M:m1 0 L:m2:$"]
    lines.append(f"net delays {rng.choice([1, 2])} {rng.choice([3, 5])}")
    if rng.random() < 0.3:
        lines.append(f"net dupl {sim_suite.fbits(0.5)}")
    for p in rng.sample(procs, rng.randint(1, nn)):
        lines.append(f"local {p} m0 =go")
    if rng.random() < 0.4:
        lines.append("step")
    a = rng.choice(nodes); b = rng.choice([n for n in nodes if n != a])
    lines.append("net " + rng.choice([f"drop_in {a}", f"drop_out {a}", f"disconnect {a}", f"disable {a} {b}", f"partition {a} / {b}",
                                      f"drop {sim_suite.fbits(0.5)}", f"dupl {sim_suite.fbits(0.5)}", f"corrupt {sim_suite.fbits(0.5)}"]))
    if rng.random() < 0.3:
        lines.append("step")
    lines += ["refenum", f"mc run {rng.choice(['dfs', 'bfs'])} {rng.choice(['full', 'disabled'])} inv=none goal=noev prune=none collect=none"]
    for _ in range(walk):
        lines += ["step", "proj"]
    lines += ["steps 8", "obs"]
    return lines


def gen_noisy_timer(rng, walk):
    """template: a timer is set when a message with a random delay arrives (at a time that is no round number), and a second
    message with a random delay arrives before the snapshot: the remaining time of the pending timer is the difference of
    two such times, to the last bit"""
    seed = rng.randrange(12)
    lines = [f"seed {seed}", f"draws {sim_suite.draws_for(seed)}", "node n0", "node n1", "proc p0 n0", "proc p1 n1 rec"]
    k = rng.choice([3, 4, 6])
    lines += ["rule p0 0 L:m0 0 S:m1:=a:p1 S:m2:=b:p1", f"rule p1 0 M:m1 0 {rng.choice(['T', 'O'])}:t0:{k}",
              f"rule p1 0 M:m2 0 {rng.choice(['T', 'O'])}:t1:{k + rng.choice([0, 1])}", "rule p1 0 T:t0 0 L:m3:=x", "rule p1 0 T:t1 0 L:m4:=y"]
    lines += [f"net delays {rng.choice([0, 1])} {rng.choice([2, 3])}", "local p0 m0 =go", rng.choice(["steps 2", "step", "steps 2"]),
              "refenum", f"mc run {rng.choice(['dfs', 'bfs'])} {rng.choice(['full', 'disabled'])} inv=none goal=noev prune=none collect=none"]
    for _ in range(walk):
        lines += ["step", "proj"]
    lines += ["steps 6", "obs"]
    return lines


def gen_rearm_walk(rng, walk):
    """template: the re-arm idiom inside the exploration — a message in flight at the snapshot makes its receiver cancel a pending
    timer and set it again with a longer delay in one handler, while another timer of the same process lies in between: the
    simulator fires the other timer before the re-armed one, and so must some explored path"""
    seed = rng.randrange(12)
    a = rng.choice([2, 3]); b = a + rng.choice([2, 4]); c = b + rng.choice([2, 6])
    lines = [f"seed {seed}", f"draws {sim_suite.draws_for(seed)}", "node n0", "node n1", "proc p0 n0 rec", "proc p1 n1"]
    lines += ["rule p1 0 L:m0 0 S:m1:=r:p0", f"rule p0 0 L:m0 0 T:t0:{a} T:t1:{b}",
              f"rule p0 0 M:m1 0 C:t0 {rng.choice(['T', 'O'])}:t0:{c}", "rule p0 0 T:t0 0 L:m2:=expired", "rule p0 0 T:t1 0 L:m3:=work"]
    lines += ["net delay 1", "local p0 m0 =a", "local p1 m0 =a", "refenum",
              f"mc run {rng.choice(['dfs', 'bfs'])} {rng.choice(['full', 'disabled'])} inv=none goal=noev prune=none collect=none"]
    for _ in range(max(walk, 3)):
        lines += ["step", "proj"]
    lines += ["steps 3", "obs"]
    return lines


def gen_send_to_crashed(rng, walk):
    """template: a node is crashed in the simulator, then live processes send to its processes (and to live ones); those
    messages sit in the simulator's queue until their delivery time, when they are discarded: the snapshot must not hand them to
    the checker, and must hand over everything else"""
    seed = rng.randrange(12)
    lines = [f"seed {seed}", f"draws {sim_suite.draws_for(seed)}", "node n0", "node n1", "node n2", "proc p0 n0", "proc p1 n1 rec", "proc p2 n2 rec"]
    lines += ["rule p0 0 L:m0 0 S:m1:=x:p1 S:m1:=y:p2", "rule p2 0 L:m0 0 S:m1:=z:p1", "rule p1 0 M:m1 0 L:m2:$", "rule p2 0 M:m1 0 L:m2:$",
              f"rule p1 0 L:m0 0 T:t0:{rng.randint(1, 3)}", "rule p1 0 T:t0 0 L:m3:=t"]
    lines.append(f"net delay {rng.choice([1, 2, 4])}")
    if rng.random() < 0.5:
        lines.append("local p1 m0 =a")          # a timer of the node that is going to crash
    lines.append("crash n1")
    lines.append("local p0 m0 =a")
    if rng.random() < 0.5:
        lines.append("local p2 m0 =a")
    if rng.random() < 0.3:
        lines.append("step")
    lines += ["refenum", f"mc run {rng.choice(['dfs', 'bfs'])} {rng.choice(['full', 'disabled'])} inv=none goal=noev prune=none collect=none"]
    for _ in range(walk):
        lines += ["step", "proj"]
    lines += ["steps 6", "obs"]
    return lines


def gen_snapshot_scenario(rng, with_steps=True, faults=True, walk=0):
    """a simulated prefix, then `mc run` (snapshot + exploration), optionally followed by a simulated walk"""
    if rng.random() < 0.06:
        return gen_send_to_crashed(rng, walk)
    if walk and rng.random() < 0.06:
        return gen_rearm_walk(rng, walk)
    r0 = rng.random()
    if r0 < 0.12:
        return gen_cut_in_flight(rng, walk)
    if r0 < 0.2:
        return gen_noisy_timer(rng, walk)
    if faults and walk and rng.random() < 0.2:
        return gen_fault_walk(rng, walk)
    r = rng.random()
    faulty = faults and 0.6 <= r < 0.8
    topo, rules, locals_ = base_system(rng, TIMER_HEAVY if r < 0.4 else SAME_NODE if r < 0.6 else FAULTY if faulty else None)
    nodes = [l.split()[1] for l in topo if l.startswith("node")]
    seed = rng.randrange(12)
    lines = [f"seed {seed}", f"draws {sim_suite.draws_for(seed)}"] + topo + rules
    if rng.random() < 0.5:
        a = rng.choice([0, 1, 2]); lines.append(f"net delays {a} {a + rng.choice([1, 3])}")
    if faults:
        ks = [k for k in ("drop", "dupl", "corrupt") if rng.random() < 0.3]
        if faulty:
            # several fault kinds at once: the simulator may draw any combination for one message
            ks = rng.sample(["drop", "dupl", "corrupt"], rng.choice([2, 2, 3]))
        for k in ks:
            lines.append(f"net {k} {rng.choice([sim_suite.fbits(0.5), sim_suite.fbits(0.25)])}")
    if rng.random() < 0.35:
        # node-level controls also on single-node systems: traffic inside a node must not be affected by them
        a = rng.choice(nodes); b = rng.choice([n for n in nodes if n != a] or [a])
        ops = [f"drop_in {a}", f"drop_out {a}", f"disconnect {a}"]
        if b != a:
            ops += [f"disable {a} {b}", f"partition {a} / {b}"]
        lines.append("net " + rng.choice(ops))
    for n in nodes:
        if rng.random() < 0.2:
            lines.append(f"skew {n} {rng.choice([1, 3])}")
    for l in locals_:
        lines.append(l)
        if with_steps and rng.random() < 0.5:
            lines.append(rng.choice(["step", "steps 2", "for 1", "for 3"]))
    if len(nodes) > 1 and rng.random() < 0.25:
        down = rng.choice(nodes)
        lines.append(f"crash {down}")
        # the others keep talking to the crashed node: what they send to it stays queued in the simulator (it is discarded at
        # delivery time) and must not be part of the snapshot
        where = {l.split()[1]: l.split()[2] for l in topo if l.startswith("proc ")}
        again = [l for l in locals_ if where.get(l.split()[1]) != down]
        if again and rng.random() < 0.7:
            lines.append(rng.choice(again))
    if with_steps:
        for _ in range(rng.randint(0, 3)):
            lines.append(rng.choice(["step", "step", "for 2"]))
    if len(nodes) > 1 and rng.random() < 0.3:
        # a link control switched on while messages are in flight: it decides about later sends only, the copies already
        # accepted by the network are delivered by the simulator and must be pending deliveries of the snapshot
        a = rng.choice(nodes); b = rng.choice([n for n in nodes if n != a])
        lines.append("net " + rng.choice([f"drop_in {a}", f"drop_out {a}", f"disconnect {a}", f"disable {a} {b}", f"partition {a} / {b}"]))
    lines.append("refenum")
    strat = rng.choice(["dfs", "bfs"]); cache = rng.choice(["full", "disabled", "partial"])
    lines.append(f"mc run {strat} {cache} inv=none goal=noev prune=none collect=none")
    for _ in range(walk):
        lines += ["step", "proj"]
    lines += ["steps 3", "obs"]
    return lines


def run_snapshot(v, tier, seed, name="snapshot", n_quick=300, n_thorough=5000, walk=0, faults=True):
    rng = random.Random(seed * 7717 + 5)
    scen = [(f"n{i}", gen_snapshot_scenario(rng, walk=walk, faults=faults)) for i in range(n_quick if tier == "quick" else n_thorough * THOROUGH_SCALE)]
    scen = mc_suite.corpus_scenarios("snap") + scen
    impl, model = run_pair("sim", [sim_suite.block(n, l) for n, l in scen])
    bad, nontriv, capped, states = [], set(), 0, 0
    hist = {}
    for nm, lines in scen:
        a = impl.get(nm, [])
        if any("result=capped" in l for l in a):
            capped += 1; continue
        b = [l for l in model.get(nm, []) if not l.startswith(("vres=", "V ", "R "))]
        a2 = [l for l in a if not l.startswith("C ")]; b2 = [l for l in b if not l.startswith("C ")]
        d = sim_suite.compare(a2, b2)
        states += sum(1 for l in a if l.startswith("E "))
        pending_at_snapshot = any(l.startswith("E ") and re.search(r" E\[\d", l) for l in a[:60])
        for k, val in (("timers_pending", any("T(" in l for l in a if l.startswith("E "))), ("crash", any(l.startswith("crash") for l in lines)),
                       ("events_at_snapshot", pending_at_snapshot)):
            if val: hist[k] = hist.get(k, 0) + 1
        if pending_at_snapshot:
            nontriv.add(hash_text("\n".join(lines)))
        if d:
            bad.append((nm, lines, d))
    cov = v.coverage.setdefault(name, {})
    cov.update({"programs": len(scen) - capped, "capped_discarded": capped, "evaluations": states, "distinct_nontrivial": len(nontriv),
                "mechanisms_hit": hist, "disagreements_checked": len(bad),
                "rule": "simulated prefix (local messages, steps, timers set/overridden/cancelled, link settings, crashes, random delays) "
                        "then ModelChecker::new + one exploration, then the simulation continues; compared: every simulator observation and "
                        "every evaluated state of the exploration (pending events with options and remaining timer delays, process "
                        "states, counters, crash flags); non-trivial = events pending at snapshot time",
                "samples": [{"scenario": nm, "lines": [l for l in ls if not l.startswith("draws")]} for nm, ls in scen[-2:]]})
    return scen, impl, model, bad


def _f(bits):
    return struct.unpack(">d", bytes.fromhex(bits))[0]


def _units(x):
    u = x * 2.0
    return str(int(u)) if u >= 0 and u == int(u) and u < 1e15 else "x" + struct.pack(">d", x).hex()


def snapshot_timer_monitor(lines, out):
    """C15/C04 on the implementation's own output: a timer pending at snapshot time is handed to the checker with its
    *remaining* time, (set time + delay) - clock, computed here from the simulator's event log (IEEE doubles, same
    operations).  Scenarios with callback operations are skipped (the callback may set timers itself)."""
    if any(l.startswith("cb ") for l in lines):
        return None
    # fault settings: ModelChecker::new must carry the three rates over (as the flags the checker's semantics depends on)
    rates = {"drop": 0.0, "dupl": 0.0, "corrupt": 0.0}
    din, dout, links, down = set(), set(), set(), set()
    for l in lines:
        w = l.split()
        if w[0] == "mc":
            break
        if w[0] == "net" and len(w) == 3 and w[1] in rates:
            rates[w[1]] = _f(w[2][1:]) if w[2].startswith("x") else float(w[2])
        elif w[0] == "net":
            # link controls of the simulator's network, by their documentation
            if w[1] == "drop_in": din.add(w[2])
            elif w[1] == "pass_in": din.discard(w[2])
            elif w[1] == "drop_out": dout.add(w[2])
            elif w[1] == "pass_out": dout.discard(w[2])
            elif w[1] == "disconnect": din.add(w[2]); dout.add(w[2])
            elif w[1] == "connect": din.discard(w[2]); dout.discard(w[2])
            elif w[1] == "disable": links.add(f"{w[2]}>{w[3]}")
            elif w[1] == "enable": links.discard(f"{w[2]}>{w[3]}")
            elif w[1] == "partition":
                k = w.index("/")
                for x in w[2:k]:
                    for y in w[k + 1:]:
                        links.add(f"{x}>{y}"); links.add(f"{y}>{x}")
            elif w[1] == "reset": din.clear(); dout.clear(); links.clear()
        elif w[0] == "crash": down.add(w[1])
        elif w[0] == "recover": down.discard(w[1])
    nets = next((l for l in out if l.startswith("NETS ")), None)
    if nets:
        got = dict(kv.split("=", 1) for kv in nets.split()[1:])
        want = {"drop": int(rates["drop"] > 0), "dupl": int(rates["dupl"] != 0), "corrupt": int(rates["corrupt"] > 0)}
        for k in want:
            if got.get(k) != str(want[k]):
                return (f"the simulator's network has {k} rate {rates[k]}, but the checker built by ModelChecker::new starts with "
                        f"{k}={got.get(k)} (expected {want[k]}): {nets}")
        # a crashed node stays disconnected in the checker; everything else is carried over as it is
        for k, val in (("din", din | down), ("dout", dout | down), ("links", links)):
            if got.get(k) != "[" + ",".join(sorted(val)) + "]":
                return (f"ModelChecker::new starts the checker with {k}={got.get(k)}, the simulator's network (plus its crashed nodes) has "
                        f"[{','.join(sorted(val))}]")
    clock, sets, first = 0.0, {}, False
    for l in out:
        m = re.match(r"ret=\S+ t=([0-9a-f]{16})", l)
        if m:
            clock = _f(m.group(1))
            for ts, name, proc, dl in re.findall(r"TS\(([0-9a-f]{16}),\d+,([^,]+),[^,]+,([^,]+),([0-9a-f]{16})\)", l):
                sets[(proc, name)] = (_f(ts), _f(dl))
        elif l.startswith("run "):
            first = True
        elif l.startswith("E ") and first:
            first = False
            em = re.search(r" E\[(.*?)\] A\[", l)
            prev = None
            for proc, name, d in re.findall(r"T\(([^,]+),([^,]+),([^)]+)\)", em.group(1) if em else ""):
                if (proc, name) in sets:
                    ts, dl = sets[(proc, name)]
                    want = _units((ts + dl) - clock)
                    if d != want:
                        return (f"timer {name} of {proc} was set at time {ts} with delay {dl}; at the snapshot the clock is {clock}, so "
                                f"{want} half-units remain, but ModelChecker::new hands it to the checker with {d}")
                    # pending timers are registered in their real firing order (the checker's ids follow the registration order)
                    if prev is not None and prev[0] > ts + dl:
                        return (f"ModelChecker::new registers timer {prev[2]} of {prev[1]} (fires at {prev[0]}) before timer {name} of {proc} "
                                f"(fires at {ts + dl}): not their real firing order, so the later one is not held back behind the earlier one")
                    prev = (ts + dl, proc, name)
    return None


def snapshot_flight_monitor(lines, out):
    """C15/C04 on the implementation's own output: every copy of a message sent before the snapshot that the simulator
    delivers after it was in flight at snapshot time, so the snapshot (the first state the exploration evaluates) holds
    at least as many pending deliveries of that (type, payload, sender, receiver) — and exactly as many when the simulation
    afterwards runs until no event is left (nothing crashes after the snapshot in these scenarios).  The message ids are
    the simulator's own (`MessageSent` / `MessageReceived` entries of its log).  Scenarios with callback operations are
    skipped (the callback may send)."""
    from .sim_monitors import split_entries
    if any(l.startswith("cb ") for l in lines) or any("capped" in l or "panic" in l or "skipped" in l for l in out):
        return None
    ops_after = []
    seen_mc = False
    for l in lines:
        if l.startswith("mc "):
            seen_mc = True
        elif seen_mc:
            ops_after.append(l.split()[0])
    if not seen_mc or any(o in ("crash", "recover", "net", "local", "mc") for o in ops_after):
        return None
    pre_ids, snap, delivered, first, seen_run, quiet = {}, None, {}, False, False, False
    for l in out:
        m = re.match(r"ret=(\S*) t=([0-9a-f]{16}) tr=\[(.*)\]$", l)
        if m:
            for kind, f in split_entries(m.group(3)):
                if kind == "MS" and not seen_run:
                    pre_ids[f[1]] = (f[3], f[5])
                elif kind == "MR" and seen_run and f[1] in pre_ids:
                    key = (f[6], ",".join(f[7:]), f[3], f[5])
                    delivered[key] = delivered.get(key, 0) + 1
            if seen_run:
                quiet = m.group(1) == "false"
        elif l.startswith("run 0 result=ok"):
            seen_run = first = True
        elif l.startswith("run "):
            return None
        elif l.startswith("E ") and first:
            first = False
            em = re.search(r" E\[(.*?)\] A\[", l)
            snap = {}
            for tip, data, src, dst in re.findall(r"\d+:M\(([^,]+),(.*?),(p\d+),(p\d+),[NF]\d+\)", em.group(1) if em else ""):
                snap[(tip, data, src, dst)] = snap.get((tip, data, src, dst), 0) + 1
    if snap is None:
        return None
    for key, n in delivered.items():
        if n > snap.get(key, 0):
            return (f"after the snapshot the simulator delivered {n} cop{'y' if n == 1 else 'ies'} of message {key[0]} {key[1]} from {key[2]} to "
                    f"{key[3]} sent before the snapshot, but the state ModelChecker::new built holds {snap.get(key, 0)} pending "
                    f"deliver{'y' if snap.get(key, 0) == 1 else 'ies'} of it: a live in-flight copy is missing from the snapshot")
    if quiet:
        for key, n in snap.items():
            if delivered.get(key, 0) < n:
                return (f"the snapshot holds {n} pending deliver{'y' if n == 1 else 'ies'} of message {key[0]} {key[1]} from {key[2]} to {key[3]}, "
                        f"but the simulation, run until no event was left, delivered only {delivered.get(key, 0)}: the snapshot contains a copy "
                        f"that was not live")
    return None


def snapshot_panic_monitor(lines, out):
    """the checker built from a snapshot must never trip its own assertions about crashed nodes (an event delivered to, or a
    timer fired on, a crashed node): whatever was pending toward a crashed node is not part of the snapshot"""
    for l in out:
        if l.startswith("PANIC ") and "crashed node" in l:
            return f"model checking from the snapshot panicked: {l[6:]}"
    return None


def snapshot_monitor(lines, out):
    return snapshot_timer_monitor(lines, out) or snapshot_flight_monitor(lines, out) or snapshot_panic_monitor(lines, out)


def report(v, bad, name, monitor=None, monfail=()):
    sim_suite.report(v, bad, list(monfail), name, monitor=monitor)


def judge_sim_path_covered(v, scen, impl, model, name, d1_text):
    """C04: every process-visible state the simulation passes through after the snapshot is among the states the checker evaluated"""
    nviol = nknown = nchecked = nd17 = 0
    for nm, lines in scen:
        a, b = impl.get(nm, []), model.get(nm, [])
        if any("result=capped" in l or "panic" in l for l in a) or not any(l.startswith("run 0 result=ok") for l in a):
            continue
        explored = set(nproj(l) for l in a if l.startswith("E "))
        projs = [nproj(l) for l in a if l.startswith("proj ")]
        if not projs:
            continue
        nchecked += 1
        missing = [p for p in projs if p not in explored]
        if not missing:
            continue
        vset = set(nproj("N" + l[3:] if False else l[2:]) for l in b if l.startswith("V "))
        mE = [l for l in b if l.startswith("E ")]
        impl_eq_model = [l for l in a if l.startswith("E ")] == mE
        if impl_eq_model and all(p in vset for p in missing):
            nknown += 1
            if mc_checks.has_finding(v.pid, "D1-override-leaves-old"):
                v.known_finding(d1_text)
            continue
        if impl_eq_model and mc_checks.has_finding(v.pid, "D17-identical-inflight-blocks-faults"):
            # finding D17: the checker's identical-message reduction looks at (message, sender, receiver) only.  If the missing states
            # are reached by the reference semantics once flights are treated as interchangeable only when their remaining delivery
            # options are equal too (W lines of the model, `refrelax`), the difference is exactly that finding
            from .common import run_blocks, DRIVER as LEAN_DRIVER
            relaxed = [("refrelax" if l == "refenum" else l) for l in lines]
            if "refrelax" not in relaxed:
                k = next(j for j, l in enumerate(relaxed) if l.startswith("mc run"))
                relaxed.insert(k, "refrelax")
            o, _, _ = run_blocks([LEAN_DRIVER, "sim"], [sim_suite.block("w", relaxed)], 60)
            w = o.get("w", [])
            wset = set(nproj(l[2:]) for l in w if l.startswith("W "))
            if any(l.startswith("wres=ok") for l in w) and all(p in wset for p in missing):
                nd17 += 1
                v.known_finding("D17-identical-inflight-blocks-faults: an identical message already in flight at the snapshot (taken over with "
                                "options noFail) blocks a later identical message sent during model checking, so the faults of the newer copy "
                                "(corruption) are never explored before the older copy is delivered; the simulator delivers the corrupted "
                                "newer copy first")
                continue
        v.violation(f"{name}-uncovered-{nm}.txt",
                    f"# property {v.pid}: the simulation passes through a process-visible state the checker never evaluated\n"
                    f"# state: {missing[0][:500]}\n# replay: /verif/check {v.pid} --replay <this file>\n" + "".join(l + "\n" for l in lines))
        nviol += 1
    cov = v.coverage.setdefault(name, {})
    cov.update({"simulated_walks_checked": nchecked, "walk_known_finding_D1": nknown, "walk_known_finding_D17": nd17, "walk_violations": nviol})
    return nviol


def judge_mc_transparent(v, scen, impl, name):
    """C09, implementation against itself: the System a ModelChecker was created from is untouched — the simulation's
    observations are the same with and without the `mc run` in the middle"""
    from .common import run_blocks, VH, JOBS, chunks, STALL_S
    from concurrent.futures import ThreadPoolExecutor
    MC = ("run ", "E ", "C ", "T ", "stat ", "NETS ", "PANIC ")
    plain = [(nm, [l for l in lines if not l.startswith(("mc ", "refenum", "cb "))]) for nm, lines in scen
             if any(l.startswith("mc ") for l in lines) and not any(l.startswith("cb ") for l in lines)]
    parts = chunks([sim_suite.block(nm, l) for nm, l in plain], JOBS)
    out = {}
    with ThreadPoolExecutor(max_workers=JOBS) as ex:
        for o, rc, err in ex.map(lambda part: run_blocks([VH, "sim"], part, STALL_S), parts):
            out.update(o)
    lines_of = dict(scen)
    nviol = ncmp = 0
    for nm, _ in plain:
        a = [l for l in impl.get(nm, []) if not l.startswith(MC)]
        b = out.get(nm, [])
        if not a or any("capped" in l or "panic" in l or l.endswith("-timeout") for l in impl.get(nm, []) + b):
            continue
        ncmp += 1
        if a != b:
            k = next((j for j, (x, y) in enumerate(zip(a, b)) if x != y), min(len(a), len(b)))
            if nviol < 3:
                v.violation(f"{name}-transparent-{nm}.txt",
                            f"# property {v.pid}: creating and running a ModelChecker changed the System it was created from: the simulation's "
                            f"observations differ from the same simulation without the `mc run` (first difference at observation {k})\n"
                            f"#   with mc:    {(a[k] if k < len(a) else '-')[:400]}\n#   without mc: {(b[k] if k < len(b) else '-')[:400]}\n"
                            f"# replay: /verif/check {v.pid} --replay <this file>\n" + "".join(l + "\n" for l in lines_of[nm]))
            nviol += 1
    v.coverage.setdefault(name, {}).update({"transparency_scenarios_compared": ncmp, "transparency_violations": nviol})
    return nviol


def fp_probe(v, tier, seed, name="fp_probe"):
    """finding D16: the snapshot's remaining timer delay is a rounded difference.  `vh fpprobe n` runs, on the real code, n clock /
    firing-time pairs with a rounding gap (fl(c + fl(t - c)) < t) and n control pairs without one: snapshot, a handler sets a timer
    with exactly the remaining delay, the simulator continues; is the simulator's firing order among those the checker explored?"""
    import subprocess
    from .common import VH, ENV
    n = 6 if tier == "quick" else 60
    p = subprocess.run([VH, "fpprobe", str(n)], capture_output=True, text=True, env=ENV, timeout=600)
    rows = [dict(kv.split("=", 1) for kv in l.split()[1:]) | {"line": l} for l in p.stdout.splitlines() if l.startswith("fp ")]
    gap = [r for r in rows if r["gap"] == "1"]; ctl = [r for r in rows if r["gap"] == "0"]
    nviol = 0
    bad_ctl = [r for r in ctl if r["covered"] != "1" or r["ok"] != "1"]
    if p.returncode != 0 or len(ctl) < n or bad_ctl:
        v.violation(f"{name}-control.txt", f"# property {v.pid}: after a snapshot the simulator fires timers in an order the checker never explores, "
                    "without any rounding gap (control group of `vh fpprobe`)\n# replay: /verif/harness/target/debug/vh fpprobe 60\n"
                    + "\n".join(r["line"] for r in bad_ctl[:5]) + (p.stderr[-2000:] if p.returncode else "") + "\n")
        nviol += 1
    uncovered = [r for r in gap if r["covered"] != "1"]
    if uncovered:
        if mc_checks.has_finding(v.pid, "D16-snapshot-remaining-rounding"):
            v.known_finding(f"D16-snapshot-remaining-rounding: with a clock c and a pending timer firing at t such that fl(c + fl(t - c)) < t, a timer set "
                            f"with delay fl(t - c) fires before the pending one in the simulator but never in the checker ({len(uncovered)} of {len(gap)} "
                            f"probed pairs, e.g. c=0x{uncovered[0]['c']} t=0x{uncovered[0]['d']}: simulator {uncovered[0]['sim']}, checker {uncovered[0]['mc']})")
        else:
            v.violation(f"{name}-gap.txt", f"# property {v.pid}: the snapshot's rounded remaining delay hides a simulator order\n"
                        + "\n".join(r["line"] for r in uncovered[:5]) + "\n")
            nviol += 1
    v.coverage.setdefault(name, {}).update({"pairs_with_rounding_gap": len(gap), "gap_pairs_uncovered": len(uncovered),
                                            "control_pairs": len(ctl), "control_pairs_uncovered": len(bad_ctl)})
    return nviol


def gen_two_routes(rng):
    """C15: the same prefix performed in the simulator before the snapshot (route A) and in the preliminary callback (route B)"""
    topo, rules, locals_ = base_system(rng, dict(procs=(1, 3)))
    nodes = [l.split()[1] for l in topo if l.startswith("node")]
    pre = []
    for l in locals_:
        pre.append(("local", l))
    if len(nodes) > 1 and rng.random() < 0.4:
        a, b = rng.sample(nodes, 2)
        pre.insert(rng.randrange(len(pre) + 1), ("net", rng.choice([f"drop_in {a}", f"drop_out {a}", f"disable {a} {b}", f"disconnect {a}"])))
    if len(nodes) > 1 and rng.random() < 0.3:
        pre.append(("crash", rng.choice(nodes)))
    # fault rates switched on after everything was sent: what is in flight stays fault-free on both routes, later sends are
    # subject to the same faults (the snapshot must carry each of the three rates over)
    rates = [k for k in ("drop", "dupl", "corrupt") if rng.random() < 0.25]
    for k in rates:
        pre.append(("rate", k))
    head = ["seed 1", f"draws {sim_suite.draws_for(1)}"] + topo + rules + ["net delay 2"]
    run = "mc run dfs full inv=none goal=noev prune=none collect=none"
    A = list(head); B = list(head)
    for kind, x in pre:
        if kind == "local": A.append(x); B.append("cb " + x)
        elif kind == "net": A.append("net " + x); B.append("cb net " + x)
        elif kind == "rate": A.append(f"net {x} {sim_suite.fbits(0.5)}"); B.append(f"cb net {x} 1")
        else: A.append(f"crash {x}"); B.append(f"cb crash {x}")
    A += ["refenum", run]; B += ["refenum", run]
    return A, B


def run_two_routes(v, tier, seed, name="routes", n_quick=200, n_thorough=3000):
    rng = random.Random(seed * 3331 + 9)
    pairs = [gen_two_routes(rng) for _ in range(n_quick if tier == "quick" else n_thorough * THOROUGH_SCALE)]
    scen = []
    for i, (A, B) in enumerate(pairs):
        scen += [(f"a{i}", A), (f"b{i}", B)]
    impl, model = run_pair("sim", [sim_suite.block(n, l) for n, l in scen])
    nviol = ncmp = 0
    for i, (A, B) in enumerate(pairs):
        ia, ib = impl.get(f"a{i}", []), impl.get(f"b{i}", [])
        if any("capped" in l or "panic" in l for l in ia + ib):
            continue
        ra = [l for l in ia if l.startswith("run ")]; rb = [l for l in ib if l.startswith("run ")]
        if not ra or not rb:
            continue
        ncmp += 1
        sa = set(nproj(l) for l in ia if l.startswith("E ")); sb = set(nproj(l) for l in ib if l.startswith("E "))
        ka, kb = ra[0].split()[2], rb[0].split()[2]
        if ka == kb == "result=ok" and sa < sb and mc_checks.has_finding(v.pid, "D15-snapshot-timer-order"):
            # the snapshot fixes the real firing order of timers that were set at one instant with different delays; the
            # callback route cannot know they were set at the same instant and also explores the other orders
            ma, mb = model.get(f"a{i}", []), model.get(f"b{i}", [])
            if [l for l in ia if l.startswith("E ")] == [l for l in ma if l.startswith("E ")] and \
               [l for l in ib if l.startswith("E ")] == [l for l in mb if l.startswith("E ")]:
                v.known_finding("D15-snapshot-timer-order: after a prefix that sets several timers of one process with different delays at one "
                                "instant, exploring from the snapshot visits a strict subset (the real firing order) of what the callback route visits")
                cov_known = v.coverage.setdefault(name, {}); cov_known["route_known_finding_D15"] = cov_known.get("route_known_finding_D15", 0) + 1
                continue
        if ka == kb == "result=ok" and sa != sb:
            # both routes explore with the real checker, so finding D1 (an overridden timer's old event stays pending) can add
            # states on either route; what the property is about is the contract-conforming exploration: when the implementation
            # follows the (defective) model variant exactly on both routes, the reference variants of the two routes decide
            ma_, mb_ = model.get(f"a{i}", []), model.get(f"b{i}", [])
            va_ = set(nproj(l[2:]) for l in ma_ if l.startswith("V ")); vb_ = set(nproj(l[2:]) for l in mb_ if l.startswith("V "))
            ok_a = any(l.startswith("vres=ok") for l in ma_); ok_b = any(l.startswith("vres=ok") for l in mb_)
            if ok_a and ok_b and [l for l in ia if l.startswith("E ")] == [l for l in ma_ if l.startswith("E ")] and \
               [l for l in ib if l.startswith("E ")] == [l for l in mb_ if l.startswith("E ")]:
                cov_d1 = v.coverage.setdefault(name, {})
                if va_ == vb_:
                    cov_d1["route_pairs_skipped_D1"] = cov_d1.get("route_pairs_skipped_D1", 0) + 1
                    continue
                if va_ < vb_ and mc_checks.has_finding(v.pid, "D15-snapshot-timer-order"):
                    cov_d1["route_known_finding_D15"] = cov_d1.get("route_known_finding_D15", 0) + 1
                    v.known_finding("D15-snapshot-timer-order: after a prefix that sets several timers of one process with different delays at one "
                                    "instant, exploring from the snapshot visits a strict subset (the real firing order) of what the callback route visits")
                    continue
            # finding D1 lives in the callback route only (the simulator cancels an overridden timer): if the callback route follows
            # the defective model variant exactly and its contract-conforming variant agrees with the snapshot route, the
            # difference is D1, which is not a statement about the snapshot
            mb = model.get(f"b{i}", [])
            vb = set(nproj(l[2:]) for l in mb if l.startswith("V "))
            if [l for l in ib if l.startswith("E ")] == [l for l in mb if l.startswith("E ")] and vb != sb:
                cov_d1 = v.coverage.setdefault(name, {})
                if vb == sa:
                    cov_d1["route_pairs_skipped_D1"] = cov_d1.get("route_pairs_skipped_D1", 0) + 1
                    continue
                if sa < vb and mc_checks.has_finding(v.pid, "D15-snapshot-timer-order"):
                    cov_d1["route_known_finding_D15"] = cov_d1.get("route_known_finding_D15", 0) + 1
                    v.known_finding("D15-snapshot-timer-order: after a prefix that sets several timers of one process with different delays at one "
                                    "instant, exploring from the snapshot visits a strict subset (the real firing order) of what the callback route visits")
                    continue
        if ka != kb or (ka == "result=ok" and sa != sb):
            v.violation(f"{name}-{i}.txt",
                        f"# property {v.pid}: exploring from a snapshot taken after the prefix and performing the prefix in the callback differ\n"
                        f"# snapshot route: {ra[0]}; callback route: {rb[0]}; states only one route visits: {sorted(sa ^ sb)[:2]}\n"
                        "# route A (simulator prefix):\n" + "".join(l + "\n" for l in A if not l.startswith("draws")) +
                        "# route B (callback):\n" + "".join("# " + l + "\n" for l in B if not l.startswith("draws")))
            nviol += 1
    cov = v.coverage.setdefault(name, {})
    cov.update({"route_pairs_compared": ncmp, "route_violations": nviol})
    return nviol


def run_clock_routes(v, tier, seed, name="routes_clock", n_quick=150, n_thorough=2500):
    """C15 "clock skews": the two routes of `run_two_routes` with clock skews (negative ones too) on the nodes and handlers that
    report the clock they are handed (`K:` actions).  Implementation against itself: whenever the two routes agree without the
    clock readings, they must agree with them (the readings end up in the outboxes of the explored states)."""
    from .common import run_blocks, VH, JOBS, chunks, STALL_S
    from concurrent.futures import ThreadPoolExecutor
    rng = random.Random(seed * 2741 + 13)
    n = n_quick if tier == "quick" else n_thorough
    scen, pairs = [], []
    for i in range(n):
        A, B = gen_two_routes(rng)
        nodes = [l.split()[1] for l in A if l.startswith("node ")]
        skews = [f"skew {nd} {sim_suite.fbits(rng.choice([-1.0, -0.25, -3.0, 0.5, 2.0]))}" for nd in nodes if rng.random() < 0.7]
        # only handlers of local messages report the clock: they run in the prefix (simulator at time 0 resp. callback at depth 0),
        # where the reading is determined; inside the exploration the clock depends on the depth of the path taken
        marks = {j: f" K:m{rng.randint(0, 2)}" for j, l in enumerate(A) if l.startswith("rule ") and l.split()[3].startswith("L:") and rng.random() < 0.7}

        def tr(lines, with_k):
            out = []
            for j, l in enumerate(lines):
                if l.startswith("rule ") and with_k:
                    l = l + marks.get([k for k, x in enumerate(A) if x == l.replace("cb ", "")][0] if l in A else -1, "")
                out.append(l)
                if l.startswith("node ") and lines[j + 1:j + 2] and not lines[j + 1].startswith("node "):
                    out += skews
            return [x for x in out if x != "refenum"]
        # rules are identical lines in both routes, at the same positions of the common head
        pairs.append(i)
        scen += [(f"a{i}", tr(A, True)), (f"b{i}", tr(B, True)), (f"c{i}", tr(A, False)), (f"d{i}", tr(B, False))]
    parts = chunks([sim_suite.block(nm, l) for nm, l in scen], JOBS)
    impl = {}
    with ThreadPoolExecutor(max_workers=JOBS) as ex:
        for o, rc, err in ex.map(lambda part: run_blocks([VH, "sim"], part, STALL_S), parts):
            impl.update(o)
    lines_of = dict(scen)

    def summary(nm):
        out = impl.get(nm, [])
        if not out or any("capped" in l or "panic" in l or l.endswith("-timeout") for l in out):
            return None
        r = [l for l in out if l.startswith("run ")]
        return (r[0].split()[2] if r else None, frozenset(nproj(l) for l in out if l.startswith("E ")))
    nviol = ncmp = nneg = 0
    for i in pairs:
        sa, sb, sc, sd = summary(f"a{i}"), summary(f"b{i}"), summary(f"c{i}"), summary(f"d{i}")
        if None in (sa, sb, sc, sd) or sc != sd:
            continue        # the routes differ already without clock readings (findings D1 / D15): nothing to learn about the clock
        ncmp += 1
        nneg += any(l.startswith("skew") and l.split()[2].startswith("xb") for l in lines_of[f"a{i}"])
        if sa != sb:
            if nviol < 3:
                diff = sorted(sa[1] ^ sb[1])[:2]
                v.violation(f"{name}-{i}.txt",
                            f"# property {v.pid}: with handlers that report the clock they are handed, exploring from a snapshot taken after the "
                            f"prefix and performing the prefix in the callback differ (without the clock readings the two routes agree): the node "
                            f"clock skews are not carried over\n# states only one route visits: {[d[:300] for d in diff]}\n"
                            "# route A (simulator prefix):\n" + "".join(l + "\n" for l in lines_of[f"a{i}"] if not l.startswith("draws")) +
                            "# route B (callback):\n" + "".join("# " + l + "\n" for l in lines_of[f"b{i}"] if not l.startswith("draws")))
            nviol += 1
    v.coverage.setdefault(name, {}).update({"route_pairs_compared": ncmp, "with_negative_skew": nneg, "violations": nviol,
        "rule": "snapshot route vs callback route with node clock skews and clock-reporting handlers; compared only where the routes agree without the readings"})
    return nviol


MC_CLOCK_MARK = "# probe: mc-clock"


def gen_mc_clock(rng):
    """handlers that report the clock they are handed, run by the model checker on nodes with clock skews: message, timer and
    local-message handlers, chained over two or three nodes"""
    nn = rng.choice([2, 2, 3])
    nodes = [f"n{i}" for i in range(nn)]
    s = rng.randrange(sim_suite.DEFAULT["seeds"])
    lines = [f"seed {s}", f"draws {sim_suite.draws_for(s)}"] + [f"node {n}" for n in nodes]
    lines += ["proc p0 n0", "proc p1 n1", f"proc p2 {nodes[-1]}"]
    both = rng.random() < 0.5
    lines.append("rule p0 0 L:m0 1 S:m1:=a:p1" + (" S:m1:=a:p2" if both else ""))
    back = rng.random() < 0.6
    lines.append(f"rule p1 0 M:m1 1 K:m2 {rng.choice(['T', 'O'])}:t0:{rng.randint(0, 2)}" + (" S:m3:=b:p0" if back else ""))
    lines.append("rule p1 1 T:t0 2 K:m3" + (" S:m4:=c:p2" if rng.random() < 0.5 else ""))
    lines.append("rule p0 1 M:m3 2 K:m4 L:m5:=x")
    lines.append("rule p2 0 M:m1 1 K:m2")
    lines.append("rule p2 0 M:m4 1 K:m6")
    lines.append("rule p2 1 M:m4 2 K:m6")
    for n in nodes:
        if rng.random() < 0.85:
            lines.append(f"skew {n} {sim_suite.fbits(rng.choice([0.37, -0.23, 1.41, 5.03, -2.77, 0.013]))}")
    lines += [f"net delay {rng.choice([1, 2])}", "local p0 m0 =go",
              f"mc run {rng.choice(['dfs', 'bfs'])} {rng.choice(['disabled', 'full'])} inv=none goal=noev prune=none collect=none", "obs"]
    return lines


def mc_clock_monitor(lines, out):
    """under the model checker a handler invoked at depth k reads 0.1 * k + the clock skew of its node (readme: the clock is
    approximated from the depth); the readings a process has put into its outbox, in order, must therefore be 0.1 * k + skew for
    non-decreasing k between 1 and the depth of the state"""
    skew = {l.split()[1]: sim_suite_val(l.split()[2]) for l in lines if l.startswith("skew ")}
    for l in out:
        if not l.startswith("E "):
            continue
        m = re.search(r" d=(\d+)", l)
        if not m:
            continue
        d = int(m.group(1))
        for node, body in re.findall(r"(n\d+):c\d+\{([^}]*)\}", l.split(" E[")[0]):
            for proc_part in body.split("/"):       # the processes of a node are separated by "/"
                last = 0
                for h in re.findall(r"=([0-9a-f]{16})\b", proc_part):
                    r = struct.unpack(">d", bytes.fromhex(h))[0] - skew.get(node, 0.0)
                    k = round(r * 10)
                    if abs(r - 0.1 * k) > 1e-9 or not (max(last, 1) <= k <= d):
                        return (f"a handler on node {node} (clock skew {skew.get(node, 0.0)}) read the clock {r + skew.get(node, 0.0)!r} in a state at depth {d}: "
                                f"not 0.1 * k + skew for a step k of the path (earlier reading at step {last}); state: {l[:300]}")
                    last = k
    return None


def sim_suite_val(tok):
    return struct.unpack(">d", bytes.fromhex(tok[1:]))[0] if tok.startswith("x") else int(tok) * 0.5


def mc_clock_probe(v, tier, seed, name="mc_clock"):
    """C02 (handlers react ... ends in exactly that state), implementation only: the Lean model has no handler clock under the checker"""
    from .common import run_blocks, VH, JOBS, chunks, STALL_S
    from concurrent.futures import ThreadPoolExecutor
    rng = random.Random(seed * 6151 + 3)
    scen = [(f"k{i}", gen_mc_clock(rng)) for i in range(80 if tier == "quick" else 1500)]
    out = {}
    with ThreadPoolExecutor(max_workers=JOBS) as ex:
        for o, rc, err in ex.map(lambda part: run_blocks([VH, "sim"], part, STALL_S), chunks([sim_suite.block(n, l) for n, l in scen], JOBS)):
            out.update(o)
    nviol = nread = 0
    for nm, lines in scen:
        a = out.get(nm, [])
        nread += sum(len(re.findall(r"=[0-9a-f]{16}\b", l)) for l in a if l.startswith("E "))
        msg = mc_clock_monitor(lines, a)
        if msg:
            if nviol < 3:
                v.violation(f"{name}-{nm}.txt", f"# property {v.pid}: {msg}\n{MC_CLOCK_MARK}\n# replay: /verif/check {v.pid} --replay <this file>\n" + "".join(l + "\n" for l in lines))
            nviol += 1
    v.coverage.setdefault(name, {}).update({"programs": len(scen), "clock_readings_checked": nread, "violations": nviol,
        "rule": "implementation only: under the checker every handler (message, timer, local message) on a node with clock skew s invoked at step k "
                "reads 0.1 * k + s; readings are taken from the outboxes of every evaluated state"})
    return nviol


def mc_clock_replay(v, path):
    from .common import run_blocks, VH
    lines = [l.strip() for l in open(path) if l.strip() and not l.startswith("#")]
    if not any(l.startswith("draws") for l in lines):
        s = next((int(l.split()[1]) for l in lines if l.startswith("seed ")), 1)
        lines.insert(1, f"draws {sim_suite.draws_for(s)}")
    o, _, _ = run_blocks([VH, "sim"], [sim_suite.block("x", lines)], 60)
    print("implementation:"); print("\n".join(l[:300] for l in o.get("x", [])[:40]))
    msg = mc_clock_monitor(lines, o.get("x", []))
    if msg:
        print("MONITOR:", msg)
        v.violation("replay.txt", open(path).read())
