"""Lean side of a check: build the property module and the driver, audit sources and axioms."""
import json, os, re, time
from .common import LEAN, sh, BuildError

ALLOWED_AXIOMS = {"propext", "Classical.choice", "Quot.sound"}
FORBIDDEN = re.compile(r"\b(sorry|admit|native_decide|bv_decide|implemented_by|unsafe)\b|^\s*axiom\s|maxHeartbeats\s+0")


def props():
    return json.load(open(os.path.join(LEAN, "props.json")))


def strip_comments(src):
    # remove block comments (nested) and line comments
    out, depth, i = [], 0, 0
    while i < len(src):
        if src.startswith("/-", i):
            depth += 1; i += 2
        elif src.startswith("-/", i) and depth > 0:
            depth -= 1; i += 2
        elif depth > 0:
            i += 1
        elif src.startswith("--", i):
            j = src.find("\n", i)
            i = len(src) if j < 0 else j
        else:
            out.append(src[i]); i += 1
    return "".join(out)


def module_closure(mods):
    """transitive closure of `import Anysystem.*` starting from the given modules"""
    seen, todo = set(), list(mods)
    while todo:
        m = todo.pop()
        if m in seen or not m.startswith("Anysystem"):
            continue
        seen.add(m)
        path = os.path.join(LEAN, *m.split(".")) + ".lean"
        if os.path.exists(path):
            for line in open(path):
                mm = re.match(r"\s*import\s+(\S+)", line)
                if mm:
                    todo.append(mm.group(1))
    return sorted(seen)


def source_audit(mods):
    bad = []
    for m in module_closure(mods):
        p = os.path.join(LEAN, *m.split(".")) + ".lean"
        if not os.path.exists(p):
            bad.append(f"{p}: missing")
            continue
        code = strip_comments(open(p).read())
        for n, line in enumerate(code.splitlines(), 1):
            if FORBIDDEN.search(line):
                bad.append(f"{p}: {line.strip()[:120]}")
    return bad


def lean_check(pid, thorough=False):
    """Returns dict(obligations, discharged, theorems, axioms, failures, checker_cmd, wall_s)."""
    t = time.time()
    spec = props()[pid]
    mods = spec["modules"]
    res = {"obligations": len(spec["theorems"]), "discharged": 0, "theorems": spec["theorems"], "axioms": {},
           "failures": [], "checker_cmd": f"cd /verif/lean && lake build {' '.join(mods)} asdriver && lake env lean Audit/{pid}.lean  (#print axioms on every obligation)"}
    p = sh(["lake", "build", *mods, "asdriver"], cwd=LEAN, timeout=3600)
    if p.returncode != 0:
        res["failures"].append("lake build failed: " + (p.stdout + p.stderr)[-3000:])
        res["wall_s"] = time.time() - t
        return res
    if "declaration uses 'sorry'" in p.stdout + p.stderr:
        res["failures"].append("build reports a sorry")
    bad = source_audit(mods)
    if bad:
        res["failures"].append("forbidden tokens in Lean sources: " + "; ".join(bad[:5]))
    os.makedirs(os.path.join(LEAN, "Audit"), exist_ok=True)
    audit = os.path.join(LEAN, "Audit", f"{pid}.lean")
    with open(audit, "w") as f:
        for m in mods:
            f.write(f"import {m}\n")
        for th in spec["theorems"]:
            f.write(f"#print axioms {th}\n")
    p = sh(["lake", "env", "lean", audit], cwd=LEAN, timeout=1800)
    out = p.stdout + p.stderr
    with open(audit.replace(".lean", ".out"), "w") as f:
        f.write(out)
    for th in spec["theorems"]:
        m = re.search(r"'" + re.escape(th) + r"' (depends on axioms: \[([^\]]*)\]|does not depend on any axioms)", out, re.S)
        if not m:
            res["failures"].append(f"obligation {th}: not found / not checked")
            continue
        axs = [a.strip() for a in (m.group(2) or "").replace("\n", " ").split(",") if a.strip()]
        res["axioms"][th] = axs
        extra = [a for a in axs if a not in ALLOWED_AXIOMS]
        if extra:
            res["failures"].append(f"obligation {th}: depends on {extra}")
        else:
            res["discharged"] += 1
    if thorough:
        for m in mods:
            q = sh(["lake", "env", "leanchecker", m], cwd=LEAN, timeout=3600)
            if q.returncode != 0:
                res["failures"].append(f"leanchecker rejected {m}: {(q.stdout + q.stderr)[-500:]}")
        res["checker_cmd"] += "; lake env leanchecker <module>"
    res["wall_s"] = round(time.time() - t, 2)
    return res
