"""Store-level correspondence (C20, C13): the real PendingEvents (through the hooks) against the
mirrored store (M lines) and against the abstract store / declarative offered set (S lines)."""
import itertools, os, random, re
from .common import run_pair, CORPUS, hash_text
from .shrink import shrink

MSG_A = "m0 =a p0 p1 F121"
MSG_A2 = "m0 =a p0 p1 F111"
MSG_B = "m0 =b p0 p1 F121"
MSG_C = "m0 =a p1 p0 N2"

EXH_ALPHABET = [
    f"pm {MSG_A}", f"pm {MSG_B}", f"pm {MSG_C}",
    "pt p0 t0 1", "pt p0 t1 0", "pt p0 t1 2", "pt p1 t0 1",
    "pop 0", "pop 1", "pop 2",
    f"rm 0 {MSG_A2}", f"rm 1 {MSG_A2}",
    "ct p0 t0", "ct p0 t1", "cp p0", "cp p1",
]


# doubles that are equal up to the last bits (0.1, 0.3-0.2, 0.1+0.2, 0.3, 0.5, next after 0.5), as raw bit patterns
NEAR_DELAYS = ['x3fb999999999999a', 'x3fb9999999999998', 'x3fd3333333333334', 'x3fd3333333333333', 'x3fe0000000000000', 'x3fe0000000000001']

def strip_tm(line):
    return re.sub(r" tm=\S*", "", line)


def gen_random(rng, n_ops):
    """Structured, mostly legal operation sequences with identical messages, equal delays, re-inserts."""
    ops, live, dead_msgs, nxt = [], {}, {}, 0
    procs = ["p0", "p1", "p2"][: rng.choice([2, 2, 3])]
    payloads = ["=a", "=b", '="q"'][: rng.choice([1, 2, 3])]
    for _ in range(n_ops):
        r = rng.random()
        if r < 0.30 or not live:
            src, dst = rng.sample(procs, 2) if rng.random() < 0.8 else (procs[0], procs[0])
            o = rng.choice(["F121", "F111", "F100", "F000", "N2"])
            spec = f"m{rng.choice([0, 0, 1])} {rng.choice(payloads)} {src} {dst} {o}"
            ops.append(f"pm {spec}")
            live[nxt] = ("m", spec); nxt += 1
        elif r < 0.55:
            p, t, d = rng.choice(procs), f"t{rng.choice([0, 0, 1, 2])}", rng.choice([0, 1, 1, 2, 3])
            if rng.random() < 0.25:
                d = rng.choice(NEAR_DELAYS)      # delays that differ in the last bits only: `<=` on delays is exact
            ops.append(f"pt {p} {t} {d}")
            live[nxt] = ("t", f"{p} {t} {d}"); nxt += 1
        elif r < 0.75:
            i = rng.choice(list(live))
            ops.append(f"pop {i}")
            kind, spec = live.pop(i)
            if kind == "m":
                dead_msgs[i] = spec
        elif r < 0.85 and dead_msgs:
            i = rng.choice(list(dead_msgs))
            spec = dead_msgs.pop(i)
            if rng.random() < 0.5:  # corruption-like: payload changes
                parts = spec.split(); parts[1] = rng.choice(payloads); spec = " ".join(parts)
            ops.append(f"rm {i} {spec}")
            live[i] = ("m", spec)
        elif r < 0.93:
            ops.append(f"ct {rng.choice(procs)} t{rng.choice([0, 1, 2])}")
            # the shadow does not track the mapping; resynchronised lazily below
            live = None
        else:
            p = rng.choice(procs)
            ops.append(f"cp {p}")
            live = None
        if live is None:
            # stop tracking: finish with pushes only (legal whatever the state is)
            live = {}
            dead_msgs = {}
            tail = rng.randrange(0, 4)
            for _ in range(tail):
                p, t, d = rng.choice(procs), f"t{rng.choice([0, 1])}", rng.choice([0, 1, 2])
                ops.append(f"pt {p} {t} {d}"); nxt += 1
            break
    # a malformed tail now and then (illegal operations: outside the property, never compared)
    if rng.random() < 0.1:
        ops.append(f"pop {nxt + 3}")
    return ops


def gen_random_tracked(rng, n_ops):
    """Long legal sequences that keep tracking liveness through cancels (uses a small reference of the
    legality rules only: which ids are live), so pops stay legal after cancel operations."""
    ops, live, dead_msgs, nxt, tm = [], {}, {}, 0, {}
    procs = ["p0", "p1", "p2"]
    for _ in range(n_ops):
        r = rng.random()
        if r < 0.28 or not live:
            src, dst = rng.sample(procs, 2)
            o = rng.choice(["F121", "F111", "F100", "N2"])
            spec = f"m0 {rng.choice(['=a', '=b'])} {src} {dst} {o}"
            ops.append(f"pm {spec}"); live[nxt] = ("m", spec); nxt += 1
        elif r < 0.5:
            p, t, d = rng.choice(procs), f"t{rng.choice([0, 1])}", rng.choice([0, 1, 2, 2])
            if rng.random() < 0.25:
                d = rng.choice(NEAR_DELAYS)
            ops.append(f"pt {p} {t} {d}"); live[nxt] = ("t", f"{p} {t} {d}"); tm[(p, t)] = nxt; nxt += 1
        elif r < 0.72:
            i = rng.choice(list(live)); ops.append(f"pop {i}")
            kind, spec = live.pop(i)
            if kind == "m": dead_msgs[i] = spec
        elif r < 0.82 and dead_msgs:
            i = rng.choice(list(dead_msgs)); spec = dead_msgs.pop(i)
            ops.append(f"rm {i} {spec}"); live[i] = ("m", spec)
        elif r < 0.92:
            p, t = rng.choice(procs), f"t{rng.choice([0, 1])}"
            ops.append(f"ct {p} {t}")
            i = tm.pop((p, t), None)
            if i is not None and i in live:
                kind, spec = live.pop(i)
                if kind == "m": dead_msgs[i] = spec
        else:
            p = rng.choice(procs); ops.append(f"cp {p}")
            for i in list(live):
                kind, spec = live[i]
                parts = spec.split()
                hit = (parts[2] == p or parts[3] == p) if kind == "m" else parts[0] == p
                if hit:
                    live.pop(i)
                    if kind == "m": dead_msgs[i] = spec
    return ops


def corpus_scenarios(sub):
    d = os.path.join(CORPUS, sub)
    res = []
    if os.path.isdir(d):
        for fn in sorted(os.listdir(d)):
            if fn.endswith(".txt"):
                lines = [l.strip() for l in open(os.path.join(d, fn)) if l.strip() and not l.startswith("#")]
                res.append((f"corpus:{fn}", lines))
    return res


def block(name, lines):
    return f"begin {name}\n" + "".join(l + "\n" for l in lines) + "end\n"


def judge(impl, model):
    """Compare one scenario. Returns (first_bad_index or None, kind, legal_ops, blocked_seen)."""
    ms = [l for l in model if l.startswith("M ")]
    ss = [l for l in model if l.startswith("S ")]
    legal, blocked = 0, False
    for i, s in enumerate(ss):
        if s == "S illegal":
            break
        legal += 1
        if i >= len(impl):
            return i, "impl-output-missing", legal, blocked
        a = strip_tm(impl[i])
        if a != "M " + strip_tm(s)[2:]:
            return i, "impl-vs-spec", legal, blocked
        if i < len(ms) and strip_tm(ms[i]) != a:
            return i, "impl-vs-model", legal, blocked
        m = re.search(r"live=\[(.*?)\] raw=\[(.*?)\]", s)
        if m and m.group(1):
            nl = len(re.findall(r"\d+:[MT]\(", m.group(1)))
            nr = len([x for x in m.group(2).split(",") if x])
            if nr < nl:
                blocked = True
    return None, "", legal, blocked


def run(v, tier, seed, only_timers=False):
    rng = random.Random(seed * 1000003 + 17)
    scen = []
    for name, lines in corpus_scenarios("store"):
        scen.append((name, lines))
    maxlen = 4 if tier == "quick" else 5
    alphabet = EXH_ALPHABET if not only_timers else [o for o in EXH_ALPHABET if not o.startswith(("pm", "rm"))] + ["pt p0 t0 2", "pop 3"]
    n_exh = 0
    for L in range(1, maxlen + 1):
        for seq in itertools.product(alphabet, repeat=L):
            # canonical pruning: a sequence that pops an id that was never allocated is illegal from that op on
            pushes, ok = 0, True
            for op in seq:
                if op.startswith(("pm", "pt")):
                    pushes += 1
                elif op.startswith(("pop", "rm")):
                    if int(op.split()[1]) >= pushes:
                        ok = False; break
            if ok:
                scen.append((f"exh{n_exh}", list(seq))); n_exh += 1
    n_rand = 1500 if tier == "quick" else 60000
    for i in range(n_rand):
        if i % 2 == 0:
            scen.append((f"rnd{i}", gen_random(rng, rng.choice([6, 10, 16, 30]))))
        else:
            scen.append((f"trk{i}", gen_random_tracked(rng, rng.choice([8, 14, 24, 40]))))
    texts = [block(n, l) for n, l in scen]
    impl, model = run_pair("store", texts)
    total_ops = legal_ops = 0
    nontrivial = set()
    ophist = {}
    disagreements = []
    for name, lines in scen:
        bad, kind, legal, blocked = judge(impl.get(name, []), model.get(name, []))
        total_ops += len(lines); legal_ops += legal
        for l in lines[:legal]:
            ophist[l.split()[0]] = ophist.get(l.split()[0], 0) + 1
        if blocked and any(l.startswith(("pop", "ct", "cp")) for l in lines[:legal]):
            nontrivial.add(hash_text("\n".join(lines)))
        if bad is not None:
            disagreements.append((name, lines, bad, kind))
    for name, lines, bad, kind in disagreements[:5]:
        def fails(ls):
            i, m = run_pair("store", [block("x", ls)], jobs=1, stall=20)
            return judge(i.get("x", []), m.get("x", []))[0] is not None
        small = shrink(lines, fails)
        i, m = run_pair("store", [block("x", small)], jobs=1, stall=20)
        b, k, _, _ = judge(i.get("x", []), m.get("x", []))
        content = (f"# property {v.pid}: the real pending-event store deviates from the declarative store\n"
                   f"# kind: {k}; first deviating operation index: {b}; scenario {name} (shrunk)\n"
                   f"# replay: /verif/check {v.pid} --replay <this file>\n"
                   + "".join(l + "\n" for l in small)
                   + "# implementation:\n" + "".join("#   " + l + "\n" for l in i.get("x", []))
                   + "# model (M) and specification (S):\n" + "".join("#   " + l + "\n" for l in m.get("x", [])))
        v.violation(f"store-{name}.txt", content)
    cov = v.coverage.setdefault("store_suite", {})
    cov.update({
        "programs": len(scen), "evaluations": total_ops, "legal_operations_compared": legal_ops,
        "distinct_nontrivial": len(nontrivial),
        "rule": "operation sequences over the store API: corpus, exhaustive up to length "
                f"{maxlen} over a {len(alphabet)}-operation alphabet, {n_rand} structured random sequences; "
                "non-trivial = distinct sequence in which some pending event was withheld (offered set smaller "
                "than live set) and a pop/cancel happened; compared after every legal operation: returned "
                "value, live events, offered set in both ordering modes, id counter",
        "exhaustive": True, "exhaustive_scenarios": n_exh, "random_scenarios": n_rand,
        "corpus_replayed": len(corpus_scenarios("store")),
        "operation_histogram": ophist, "disagreements_checked": len(disagreements),
        "samples": [{"scenario": n, "ops": l} for n, l in scen[:2] + scen[-2:]],
    })
    return len(disagreements)


def replay(v, path):
    lines = [l.strip() for l in open(path) if l.strip() and not l.startswith("#")]
    i, m = run_pair("store", [block("x", lines)], jobs=1, stall=20)
    b, k, _, _ = judge(i.get("x", []), m.get("x", []))
    for a, bb in zip(i.get("x", []), [l for l in m.get("x", []) if l.startswith("S ")]):
        print("impl:", a); print("spec:", bb)
    if b is not None:
        v.violation("replay.txt", open(path).read())
