//! Probe for the rounding corner of the snapshot's remaining timer delays (finding D16).
//!
//! A timer A is pending with firing time `tA = 0 + d`; the clock is advanced to `c` by another timer.  `ModelChecker::new`
//! hands A to the checker with the remaining delay `r = fl(tA - c)`.  A handler then sets a timer C with delay exactly `r`.
//! The checker orders C behind A (A is earlier and `r <= r`).  In the simulator C fires at `fl(c + r)`, which for some `c, d`
//! is strictly smaller than `tA`: the simulator fires C before A, an order the checker never explores.
//!
//! Output: one line per candidate `(c, d)`: `fp c=<bits> d=<bits> sim=<order> mc=<orders>  covered=<0|1>`.
use std::cell::RefCell;
use std::rc::Rc;

use anysystem::mc::strategies::Dfs;
use anysystem::mc::{GoalFn, InvariantFn, McState, ModelChecker, StrategyConfig};
use anysystem::process::StringProcessState;
use anysystem::{Context, Message, Process, ProcessState, System};

#[derive(Clone)]
struct Probe {
    c: f64,
    d: f64,
    r: f64,
    fired: String,
}

impl Process for Probe {
    fn on_message(&mut self, _msg: Message, _from: String, _ctx: &mut Context) -> Result<(), String> {
        Ok(())
    }
    fn on_local_message(&mut self, msg: Message, ctx: &mut Context) -> Result<(), String> {
        if msg.tip == "init" {
            ctx.set_timer("A", self.d);
            ctx.set_timer("B", self.c);
        } else {
            ctx.set_timer("C", self.r);
        }
        Ok(())
    }
    fn on_timer(&mut self, timer: String, _ctx: &mut Context) -> Result<(), String> {
        self.fired.push_str(&timer);
        Ok(())
    }
    fn state(&self) -> Result<Rc<dyn ProcessState>, String> {
        Ok(Rc::new(self.fired.clone()))
    }
    fn set_state(&mut self, state: Rc<dyn ProcessState>) -> Result<(), String> {
        self.fired = (*state.downcast_rc::<StringProcessState>().unwrap()).clone();
        Ok(())
    }
}

fn fired_of(s: &McState) -> String {
    s.node_states["n"].proc_states["p"]
        .proc_state
        .downcast_ref::<String>()
        .cloned()
        .unwrap_or_default()
}

pub fn run(n: usize) {
    // deterministic candidate stream (xorshift), no dependence on the library's RNG
    let mut x: u64 = 0x9E3779B97F4A7C15;
    let mut next = || {
        x ^= x << 13;
        x ^= x >> 7;
        x ^= x << 17;
        (x >> 11) as f64 / (1u64 << 53) as f64
    };
    let mut shown = 0;
    let mut controls = 0;
    let mut tried = 0;
    while (shown < n || controls < n) && tried < 400000 {
        tried += 1;
        let c = next() * 10.0;
        let d = c + next() * 10.0 + 0.5;
        let r = d - c;
        let gap = c + r < d;
        // `n` pairs with a rounding gap and `n` control pairs without one
        if gap && shown >= n || !gap && controls >= n {
            continue;
        }
        if gap {
            shown += 1;
        } else {
            controls += 1;
        }
        let mut sys = System::new(1);
        sys.add_node("n");
        sys.add_process("p", Box::new(Probe { c, d, r, fired: String::new() }), "n");
        sys.send_local_message("p", Message::new("init", "x"));
        sys.step(); // B fires: the clock is c, A is pending with firing time d
        assert_eq!(sys.time(), c);
        // the checker, from the snapshot, with the local message delivered in the callback
        let seen: Rc<RefCell<Vec<String>>> = Rc::new(RefCell::new(vec![]));
        let seen2 = seen.clone();
        let inv: InvariantFn = Box::new(move |s: &McState| {
            if s.events.is_empty() {
                let f = fired_of(s);
                if !seen2.borrow().contains(&f) {
                    seen2.borrow_mut().push(f);
                }
            }
            Ok(())
        });
        let goal: GoalFn = Box::new(|s: &McState| if s.events.is_empty() { Some("done".to_string()) } else { None });
        let cfg = StrategyConfig::default().invariant(inv).goal(goal);
        let mut mc = ModelChecker::new(&sys);
        let res = mc.run_with_change::<Dfs>(cfg, |m| {
            m.send_local_message("n", "p", Message::new("go", "x"));
        });
        let ok = res.is_ok();
        // the simulator itself
        sys.send_local_message("p", Message::new("go", "x"));
        sys.step_until_no_events();
        let node = sys.get_node("n").unwrap();
        let simf = node
            .get_process("p")
            .unwrap()
            .state()
            .unwrap()
            .downcast_ref::<String>()
            .cloned()
            .unwrap_or_default();
        let mut orders = seen.borrow().clone();
        orders.sort();
        println!(
            "fp gap={} c={:016x} d={:016x} r={:016x} ok={} sim={} mc={} covered={}",
            gap as u8,
            c.to_bits(),
            d.to_bits(),
            r.to_bits(),
            ok as u8,
            simf,
            orders.join("|"),
            orders.contains(&simf) as u8
        );
    }
}
