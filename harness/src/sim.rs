//! `vh sim`: drives the real `System` with one API call per line and prints one canonical
//! observation per call (return value, clock, trace entries added by the call).
use std::cell::RefCell;
use std::collections::HashMap;
use std::io::BufRead;
use std::panic::{catch_unwind, AssertUnwindSafe};
use std::rc::Rc;

use anysystem::events::{MessageReceived, TimerFired};
use anysystem::logger::LogEntry;
use anysystem::{Message, ProcessEvent, System, TimerBehavior};
use rand::{Rng, SeedableRng};
use rand_pcg::Pcg64;

use crate::canon::*;
use crate::mc::sim_net_op;
use crate::script::*;

pub fn hexf(x: f64) -> String {
    format!("{:016x}", x.to_bits())
}

/// value tokens: integer = half units, `x<hex>` = raw f64 bits
pub fn fof(tok: &str) -> f64 {
    if let Some(h) = tok.strip_prefix('x') {
        f64::from_bits(u64::from_str_radix(h, 16).unwrap())
    } else {
        delay_of(tok.parse().unwrap())
    }
}

pub fn show_slog(e: &LogEntry) -> String {
    match e {
        LogEntry::NodeStarted { time, node, .. } => format!("NS({},{})", hexf(*time), node),
        LogEntry::ProcessStarted { time, node, proc } => format!("PS({},{},{})", hexf(*time), node, proc),
        LogEntry::LocalMessageSent {
            time, msg_id, msg, ..
        } => format!("LS({},{},{})", hexf(*time), msg_id, show_msg(msg)),
        LogEntry::LocalMessageReceived {
            time, msg_id, msg, ..
        } => format!("LR({},{},{})", hexf(*time), msg_id, show_msg(msg)),
        LogEntry::MessageSent {
            time,
            msg_id,
            src_node,
            src_proc,
            dst_node,
            dst_proc,
            msg,
        } => format!(
            "MS({},{},{},{},{},{},{})",
            hexf(*time),
            msg_id,
            src_node,
            src_proc,
            dst_node,
            dst_proc,
            show_msg(msg)
        ),
        LogEntry::MessageReceived {
            time,
            msg_id,
            src_node,
            src_proc,
            dst_node,
            dst_proc,
            msg,
        } => format!(
            "MR({},{},{},{},{},{},{})",
            hexf(*time),
            msg_id,
            src_node,
            src_proc,
            dst_node,
            dst_proc,
            show_msg(msg)
        ),
        LogEntry::MessageDropped {
            time,
            msg_id,
            src_node,
            src_proc,
            dst_node,
            dst_proc,
            msg,
        } => format!(
            "MD({},{},{},{},{},{},{})",
            hexf(*time),
            msg_id,
            src_node,
            src_proc,
            dst_node,
            dst_proc,
            show_msg(msg)
        ),
        LogEntry::NodeDisconnected { time, node } => format!("ND({},{})", hexf(*time), node),
        LogEntry::NodeConnected { time, node } => format!("NC({},{})", hexf(*time), node),
        LogEntry::NodeCrashed { time, node } => format!("NX({},{})", hexf(*time), node),
        LogEntry::NodeRecovered { time, node } => format!("NR({},{})", hexf(*time), node),
        LogEntry::TimerSet {
            time,
            timer_id,
            timer_name,
            node,
            proc,
            delay,
        } => format!(
            "TS({},{},{},{},{},{})",
            hexf(*time),
            timer_id,
            timer_name,
            node,
            proc,
            hexf(*delay)
        ),
        LogEntry::TimerFired {
            time,
            timer_id,
            timer_name,
            node,
            proc,
        } => format!("TF({},{},{},{},{})", hexf(*time), timer_id, timer_name, node, proc),
        LogEntry::TimerCancelled {
            time,
            timer_id,
            timer_name,
            node,
            proc,
        } => format!("TC({},{},{},{},{})", hexf(*time), timer_id, timer_name, node, proc),
        LogEntry::LinkDisabled { time, from, to } => format!("LD({},{},{})", hexf(*time), from, to),
        LogEntry::LinkEnabled { time, from, to } => format!("LE({},{},{})", hexf(*time), from, to),
        LogEntry::DropIncoming { time, node } => format!("DI({},{})", hexf(*time), node),
        LogEntry::PassIncoming { time, node } => format!("PI({},{})", hexf(*time), node),
        LogEntry::DropOutgoing { time, node } => format!("DO({},{})", hexf(*time), node),
        LogEntry::PassOutgoing { time, node } => format!("PO({},{})", hexf(*time), node),
        LogEntry::NetworkPartition { time, group1, group2 } => {
            format!("NP({},{},{})", hexf(*time), show_list(group1), show_list(group2))
        }
        LogEntry::NetworkReset { time } => format!("RS({})", hexf(*time)),
        other => format!("OTHER({:?})", other),
    }
}

pub fn show_pev(e: &ProcessEvent) -> String {
    match e {
        ProcessEvent::MessageSent { msg, src, dst } => format!("sent({},{},{})", show_msg(msg), src, dst),
        ProcessEvent::MessageReceived { msg, src, dst } => format!("recv({},{},{})", show_msg(msg), src, dst),
        ProcessEvent::LocalMessageSent { msg } => format!("lsent({})", show_msg(msg)),
        ProcessEvent::LocalMessageReceived { msg } => format!("lrecv({})", show_msg(msg)),
        ProcessEvent::TimerSet { name, delay, behavior } => format!(
            "tset({},{},{})",
            name,
            units_of(*delay),
            if *behavior == TimerBehavior::SetOnce { 1 } else { 0 }
        ),
        ProcessEvent::TimerFired { name } => format!("tfired({})", name),
        ProcessEvent::TimerCancelled { name } => format!("tcancel({})", name),
    }
}

pub fn show_msgs(ms: &[Message]) -> String {
    show_list(&ms.iter().map(show_msg).collect::<Vec<_>>())
}

pub struct SimScenario {
    pub cbs: Vec<Vec<String>>,
    pub mc_runs: usize,
    pub sys: System,
    pub scripts: HashMap<String, Rc<RefCell<Script>>>,
    pub py_procs: std::collections::HashSet<String>,
    pub issued: HashMap<String, Rc<RefCell<Vec<String>>>>,
    pub rule_tokens: Vec<(String, Vec<String>)>,
    pub trace_seen: usize,
    pub dead: bool,
}

impl SimScenario {
    pub fn new(seed: u64) -> Self {
        Self {
            cbs: vec![],
            mc_runs: 0,
            sys: System::new(seed),
            scripts: HashMap::new(),
            py_procs: Default::default(),
            issued: HashMap::new(),
            rule_tokens: vec![],
            trace_seen: 0,
            dead: false,
        }
    }

    pub fn obs(&mut self, ret: &str, sort_tail: bool) -> String {
        let logger = self.sys.logger();
        let trace = logger.trace();
        let mut new: Vec<String> = trace[self.trace_seen..].iter().map(show_slog).collect();
        // the order in which `crash_node` logs the dropped messages follows simcore's heap layout, which the model does
        // not mirror: sorted for the comparison with the model; the determinism check (C01) sets VH_RAW_ORDER and
        // compares the raw order between executions
        if sort_tail && new.len() > 1 && std::env::var("VH_RAW_ORDER").is_err() {
            new[1..].sort();
        }
        self.trace_seen = trace.len();
        drop(logger);
        format!("ret={} t={} tr={}", ret, hexf(self.sys.time()), show_list(&new))
    }

    pub fn full(&self) -> Vec<String> {
        let mut out = vec![];
        let mut nodes = self.sys.nodes();
        nodes.sort();
        let mut node_lines = vec![];
        for n in &nodes {
            let node = self.sys.get_node(n).unwrap();
            let mut procs = node.process_names();
            procs.sort();
            for p in procs {
                let st = node
                    .get_process(&p)
                    .unwrap()
                    .state()
                    .unwrap()
                    .downcast_ref::<String>()
                    .cloned()
                    .unwrap_or_default();
                let log: Vec<String> = node
                    .event_log(&p)
                    .iter()
                    .map(|e| format!("{}:{}", hexf(e.time), show_pev(&e.event)))
                    .collect();
                // the actions in the event log, in the compact form of the process's own record
                let logged: Vec<String> = node
                    .event_log(&p)
                    .iter()
                    .filter_map(|e| match &e.event {
                        ProcessEvent::MessageSent { msg, dst, .. } => Some(format!("S:{}:{}", msg.tip, dst)),
                        ProcessEvent::LocalMessageSent { msg } => Some(format!("L:{}", msg.tip)),
                        ProcessEvent::TimerSet { name, delay, behavior } => Some(format!(
                            "T:{}:{}:{}",
                            name,
                            units_of(*delay),
                            if *behavior == TimerBehavior::SetOnce { 1 } else { 0 }
                        )),
                        ProcessEvent::TimerCancelled { name } => Some(format!("C:{}", name)),
                        _ => None,
                    })
                    .collect();
                // script processes keep their own record of what they issued (Python processes do not)
                let (issued, issok) = match self.issued.get(&p) {
                    Some(c) if !self.py_procs.contains(&p) => (c.borrow().len(), *c.borrow() == logged),
                    _ => (logged.len(), true),
                };
                out.push(format!(
                    "P {} {} st={} out={} s={} r={} iss={} issok={} log={}",
                    p,
                    n,
                    st,
                    show_msgs(&node.local_outbox(&p)),
                    node.sent_message_count(&p),
                    node.received_message_count(&p),
                    issued,
                    issok as u8,
                    show_list(&log)
                ));
            }
            // the System-level accessors are documented as delegates of the node-level ones: they must agree on every
            // observed state (a process is listed on exactly one node in the generated scenarios)
            let mut api = self.sys.node_is_crashed(n) == node.is_crashed();
            for p in node.process_names() {
                if nodes.iter().filter(|m| self.sys.get_node(m).unwrap().process_names().contains(&p)).count() != 1 {
                    continue;
                }
                // (first whether the System knows the process at all: the other accessors index by its name)
                api = api
                    && self.sys.process_names().contains(&p)
                    && self.sys.proc_node_name(&p) == *n
                    && self.sys.proc_node_is_crashed(&p) == node.is_crashed()
                    && self.sys.sent_message_count(&p) == node.sent_message_count(&p)
                    && self.sys.received_message_count(&p) == node.received_message_count(&p)
                    && self.sys.local_outbox(&p) == node.local_outbox(&p)
                    && self.sys.event_log(&p).len() == node.event_log(&p).len();
            }
            node_lines.push(format!(
                "Nd {} crashed={} api={}",
                n,
                if node.is_crashed() { 1 } else { 0 },
                api as u8
            ));
        }
        out.extend(node_lines);
        let q: Vec<String> = self
            .sys
            .sim()
            .dump_events()
            .iter()
            .map(|e| {
                let data = if let Some(m) = e.data.downcast_ref::<MessageReceived>() {
                    format!(
                        "msg({},{},{},{},{},{})",
                        m.id,
                        show_msg(&m.msg),
                        m.src,
                        m.src_node,
                        m.dst,
                        m.dst_node
                    )
                } else if let Some(t) = e.data.downcast_ref::<TimerFired>() {
                    format!("timer({},{})", t.proc, t.timer)
                } else {
                    "?".to_string()
                };
                format!(
                    "{}@{}:{}>{}:{}",
                    e.id,
                    hexf(e.time),
                    self.sys.sim().lookup_name(e.src),
                    self.sys.sim().lookup_name(e.dst),
                    data
                )
            })
            .collect();
        let mut pn: Vec<String> = self
            .sys
            .process_names()
            .iter()
            .map(|p| format!("{}:{}", p, self.sys.proc_node_name(p)))
            .collect();
        pn.sort();
        let nmc = self.sys.network().network_message_count();
        let traffic = self.sys.network().traffic();
        out.push(format!(
            "Net nmc={} traffic={} Q={} procs={}",
            nmc,
            traffic,
            show_list(&q),
            show_list(&pn)
        ));
        out
    }

    /// executes one operation; returns the lines to print
    pub fn op(&mut self, ws: &[&str]) -> Vec<String> {
        match ws[0] {
            "node" => {
                self.sys.add_node(ws[1]);
                vec![self.obs("ok", false)]
            }
            "proc" => {
                let script = self
                    .scripts
                    .entry(ws[1].to_string())
                    .or_insert_with(|| Rc::new(RefCell::new(Script::default())))
                    .clone();
                let rec = ws[3..].contains(&"rec");
                script.borrow_mut().record = rec;
                script.borrow_mut().canon = ws[3..].contains(&"canon");
                if ws[3..].contains(&"py") || ws[3..].contains(&"pyd") || ws[3..].contains(&"pys") || ws[3..].contains(&"pyr") || ws[3..].contains(&"pyo") || ws[3..].contains(&"pyu") || ws[3..].contains(&"pyn") {
                    self.py_procs.insert(ws[1].to_string());
                    // the Python twin gets the rules known so far (py scenarios list the rules before the processes)
                    let toks: Vec<Vec<String>> = self
                        .rule_tokens
                        .iter()
                        .filter(|(q, _)| q == ws[1])
                        .map(|(_, w)| w.clone())
                        .collect();
                    let class = if ws[3..].contains(&"py") {
                        "ScriptProc"
                    } else if ws[3..].contains(&"pys") {
                        "ScriptProcShared"
                    } else if ws[3..].contains(&"pyr") {
                        "ScriptProcRandom"
                    } else if ws[3..].contains(&"pyo") {
                        "ScriptProcOrder"
                    } else if ws[3..].contains(&"pyu") {
                        "ScriptProcUnpicklable"
                    } else if ws[3..].contains(&"pyn") {
                        "ScriptProcNegative"
                    } else {
                        "ScriptProcDefault"
                    };
                    let f = anysystem::python::PyProcessFactory::new("/verif/harness/py/vscript.py", class);
                    self.sys.add_process(ws[1], Box::new(f.build((rules_json(&toks), rec), 1)), ws[2]);
                } else {
                    let sp = ScriptProc::new(script);
                    self.issued.insert(ws[1].to_string(), sp.issued.clone());
                    self.sys.add_process(ws[1], Box::new(sp), ws[2]);
                }
                vec![self.obs("ok", false)]
            }
            "rule" => {
                let script = self
                    .scripts
                    .entry(ws[1].to_string())
                    .or_insert_with(|| Rc::new(RefCell::new(Script::default())))
                    .clone();
                script.borrow_mut().rules.push(parse_rule(&ws[2..]));
                self.rule_tokens
                    .push((ws[1].to_string(), ws[2..].iter().map(|x| x.to_string()).collect()));
                vec![]
            }
            "draws" => vec![],
            "skew" => {
                self.sys.set_node_clock_skew(ws[1], fof(ws[2]));
                vec![self.obs("ok", false)]
            }
            "net" => {
                match ws[1] {
                    "drop" => self.sys.network().set_drop_rate(fof(ws[2])),
                    "dupl" => self.sys.network().set_dupl_rate(fof(ws[2])),
                    "corrupt" => self.sys.network().set_corrupt_rate(fof(ws[2])),
                    "delay" => self.sys.network().set_delay(fof(ws[2])),
                    "delays" => self.sys.network().set_delays(fof(ws[2]), fof(ws[3])),
                    _ => sim_net_op(&self.sys, &ws[1..]),
                }
                vec![self.obs("ok", false)]
            }
            "local" => {
                self.sys
                    .send_local_message(ws[1], Message::new(ws[2].to_string(), ws[3][1..].to_string()));
                vec![self.obs("ok", false)]
            }
            "step" => {
                let b = self.sys.step();
                vec![self.obs(&b.to_string(), false)]
            }
            "steps" => {
                let b = self.sys.steps(ws[1].parse().unwrap());
                vec![self.obs(&b.to_string(), false)]
            }
            "until_none" => {
                self.sys.step_until_no_events();
                vec![self.obs("ok", false)]
            }
            "for" => {
                let b = self.sys.step_for_duration(fof(ws[1]));
                vec![self.obs(&b.to_string(), false)]
            }
            "until_local" => {
                let r = self.sys.step_until_local_message(ws[1]).map_err(|e| e.to_string());
                let ret = match r {
                    Ok(ms) => format!("Ok{}", show_msgs(&ms)),
                    Err(_) => "Err".to_string(),
                };
                vec![self.obs(&ret, false)]
            }
            "until_local_timeout" => {
                let r = self
                    .sys
                    .step_until_local_message_timeout(ws[1], fof(ws[2]))
                    .map_err(|e| e.to_string());
                let ret = match r {
                    Ok(ms) => format!("Ok{}", show_msgs(&ms)),
                    Err(_) => "Err".to_string(),
                };
                vec![self.obs(&ret, false)]
            }
            "until_local_max" => {
                let r = self
                    .sys
                    .step_until_local_message_max_steps(ws[1], ws[2].parse().unwrap())
                    .map_err(|e| e.to_string());
                let ret = match r {
                    Ok(ms) => format!("Ok{}", show_msgs(&ms)),
                    Err(_) => "Err".to_string(),
                };
                vec![self.obs(&ret, false)]
            }
            "roundtrip" => {
                // Process::state() followed by Node::set_process_state with that very state: nothing may change
                let node_name = self.sys.proc_node_name(ws[1]);
                let st = self.sys.get_node(&node_name).unwrap().get_process(ws[1]).unwrap().state().unwrap();
                self.sys.get_mut_node(&node_name).unwrap().set_process_state(ws[1], st);
                vec![self.obs("ok", false)]
            }
            "rand" => {
                // the simulation-wide generator through the System API (C01 only: the draw stream of the model is not kept in step)
                let x: u32 = self.sys.gen_range(0..1000000);
                let t = self.sys.random_string(4);
                vec![self.obs(&format!("{}-{}", x, t), false)]
            }
            "read" => {
                let ms = self.sys.read_local_messages(ws[1]);
                vec![self.obs(&show_msgs(&ms), false)]
            }
            "crash" => {
                self.sys.crash_node(ws[1]);
                vec![self.obs("ok", true)]
            }
            "recover" => {
                self.sys.recover_node(ws[1]);
                vec![self.obs("ok", false)]
            }
            "obs" => self.full(),
            "refenum" => vec![],
            "cb" => {
                self.cbs.push(ws[1..].iter().map(|s| s.to_string()).collect());
                vec![]
            }
            "proj" => {
                let mut nodes = self.sys.nodes();
                nodes.sort();
                let mut out = vec![];
                for n in &nodes {
                    let node = self.sys.get_node(n).unwrap();
                    let mut procs = node.process_names();
                    procs.sort();
                    let ps: Vec<String> = procs
                        .iter()
                        .map(|p| {
                            let st = node
                                .get_process(p)
                                .unwrap()
                                .state()
                                .unwrap()
                                .downcast_ref::<String>()
                                .cloned()
                                .unwrap_or_default();
                            format!("{}:{};o={}", p, st, show_msgs(&node.local_outbox(p)))
                        })
                        .collect();
                    out.push(format!(
                        "{}:c{}{{{}}}",
                        n,
                        if node.is_crashed() { 1 } else { 0 },
                        ps.join("/")
                    ));
                }
                vec![format!("proj N{} F[] T[]", show_list(&out))]
            }
            "mc" => {
                // ModelChecker::new(&sys) followed by one run; the System must not be affected
                use anysystem::mc::strategies::{Bfs, Dfs};
                use anysystem::mc::{McSystem, ModelChecker};
                let k = self.mc_runs;
                self.mc_runs += 1;
                let loc: HashMap<String, String> = self
                    .sys
                    .process_names()
                    .iter()
                    .map(|p| (p.clone(), self.sys.proc_node_name(p)))
                    .collect();
                let rec = Rc::new(RefCell::new(Vec::new()));
                let config = crate::mc::make_config(&ws[1..], &loc, rec.clone());
                let cbs = std::mem::take(&mut self.cbs);
                let loc2 = loc.clone();
                let cb = move |sys: &mut McSystem| {
                    for op in &cbs {
                        crate::mc::mc_cb_op(sys, &loc2, op);
                    }
                };
                let res = catch_unwind(AssertUnwindSafe(|| {
                    let mut mc = ModelChecker::new(&self.sys);
                    let res = if ws.get(2) == Some(&"bfs") {
                        mc.run_with_change::<Bfs>(config, cb)
                    } else {
                        mc.run_with_change::<Dfs>(config, cb)
                    };
                    crate::mc::summarize(res, &rec)
                }));
                match res {
                    Ok(out) => crate::mc::run_lines(k, &out),
                    Err(e) => {
                        if e.downcast_ref::<crate::mc::Capped>().is_some() {
                            vec![format!("run {} result=capped", k)]
                        } else {
                            std::panic::resume_unwind(e)
                        }
                    }
                }
            }
            _ => vec![format!("bad-op {}", ws.join(" "))],
        }
    }
}

pub fn draws(seed: u64, n: usize) {
    let mut rng = Pcg64::seed_from_u64(seed);
    let v: Vec<String> = (0..n)
        .map(|_| format!("{:016x}", rng.gen_range(0.0..1.0f64).to_bits()))
        .collect();
    println!("{}", v.join(" "));
}

pub fn run() {
    let stdin = std::io::stdin();
    let mut sc = SimScenario::new(0);
    for line in stdin.lock().lines() {
        let line = line.unwrap();
        let ws: Vec<&str> = line.split_whitespace().collect();
        if ws.is_empty() {
            continue;
        }
        match ws[0] {
            "begin" => {
                sc = SimScenario::new(0);
                println!("{}", line.trim());
            }
            "end" => println!("end"),
            "seed" => sc = SimScenario::new(ws[1].parse().unwrap()),
            _ => {
                if sc.dead {
                    println!("ret=skipped");
                    continue;
                }
                match catch_unwind(AssertUnwindSafe(|| sc.op(&ws))) {
                    Ok(lines) => {
                        for l in lines {
                            println!("{}", l);
                        }
                    }
                    Err(e) => {
                        println!("ret=panic");
                        // the panic message, for the monitors only (the comparison with the model ignores this line)
                        println!("PANIC {}", crate::mc::panic_text(&e));
                        sc.dead = true;
                    }
                }
            }
        }
    }
}
