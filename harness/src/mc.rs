//! `vh mc`: builds a real `System` of script processes, snapshots it with `ModelChecker::new`,
//! applies callback operations and runs the real strategies; prints the canonical observation stream.
use std::cell::RefCell;
use std::collections::{BTreeMap, HashMap, HashSet};
use std::io::BufRead;
use std::panic::{catch_unwind, AssertUnwindSafe};
use std::rc::Rc;

use anysystem::mc::strategies::{Bfs, Dfs};
use anysystem::mc::{
    EventOrderingMode, ExecutionMode, McResult, McState, McSystem, ModelChecker, StrategyConfig, VisitedStates,
};
use anysystem::{Message, System};

use crate::canon::*;
use crate::script::*;

pub fn show_state(s: &McState) -> String {
    let mut nodes = vec![];
    let mut extras = vec![];
    for (n, ns) in &s.node_states {
        let mut procs = vec![];
        for (p, e) in &ns.proc_states {
            let st = e
                .proc_state
                .downcast_ref::<String>()
                .cloned()
                .unwrap_or_else(|| format!("{:?}", e.proc_state));
            let outbox: Vec<String> = e.local_outbox.iter().map(show_msg).collect();
            procs.push(format!("{}:{};o={}", p, st, show_list(&outbox)));
            let mut pend: Vec<String> = e.pending_timers.keys().cloned().collect();
            pend.sort();
            extras.push(format!(
                "{}:pend={};s={};r={};log={}",
                p,
                show_list(&pend),
                e.sent_message_count,
                e.received_message_count,
                e.event_log.len()
            ));
        }
        nodes.push(format!(
            "{}:c{}{{{}}}",
            n,
            if ns.verif_is_crashed() { 1 } else { 0 },
            procs.join("/")
        ));
    }
    let evs: Vec<String> = s
        .events
        .verif_live()
        .iter()
        .map(|(i, e)| format!("{}:{}", i, show_ev(e)))
        .collect();
    let avail: Vec<String> = s.events.verif_available_raw().iter().map(|x| x.to_string()).collect();
    let tm: Vec<String> = s
        .events
        .verif_timer_mapping()
        .iter()
        .map(|((p, t), id)| format!("{}.{}:{}", p, t, id))
        .collect();
    let tr = s.trace.iter().filter(|e| show_log(e) != "sim").count();
    format!(
        "N{} E{} A{} TM{} nx={} X{} d={} tr={}",
        show_list(&nodes),
        show_list(&evs),
        show_list(&avail),
        show_list(&tm),
        s.events.verif_id_counter(),
        show_list(&extras),
        s.depth,
        tr
    )
}

pub fn show_trace(t: &[anysystem::logger::LogEntry]) -> String {
    let items: Vec<String> = t.iter().map(show_log).filter(|x| x != "sim").collect();
    show_list(&items)
}

#[derive(Clone, Debug)]
pub enum Atom {
    Never,
    Dgt(u64),
    Out(String, usize),
    St(String, u64),
    NoEv,
    Always,
}

pub fn parse_cond(s: &str) -> Vec<Atom> {
    s.split('|')
        .map(|a| {
            let parts: Vec<&str> = a.split(':').collect();
            match parts[0] {
                "dgt" => Atom::Dgt(parts[1].parse().unwrap()),
                "out" => Atom::Out(parts[1].to_string(), parts[2].parse().unwrap()),
                "st" => Atom::St(parts[1].to_string(), parts[2].parse().unwrap()),
                "noev" => Atom::NoEv,
                "always" => Atom::Always,
                _ => Atom::Never,
            }
        })
        .collect()
}

pub fn holds(atoms: &[Atom], loc: &HashMap<String, String>, s: &McState) -> bool {
    atoms.iter().any(|a| match a {
        Atom::Never => false,
        Atom::Dgt(n) => s.depth > *n,
        Atom::Out(p, n) => loc
            .get(p)
            .map(|nd| s.node_states[nd].proc_states[p].local_outbox.len() >= *n)
            .unwrap_or(false),
        Atom::St(p, n) => loc
            .get(p)
            .map(|nd| {
                let st = s.node_states[nd].proc_states[p]
                    .proc_state
                    .downcast_ref::<String>()
                    .cloned()
                    .unwrap_or_default();
                st.split('|').next().unwrap().parse::<u64>().ok() == Some(*n)
            })
            .unwrap_or(false),
        Atom::NoEv => s.events.is_empty(),
        Atom::Always => true,
    })
}

pub fn kv<'a>(ws: &[&'a str], k: &str) -> &'a str {
    for w in ws {
        if w.starts_with(k) && w.as_bytes().get(k.len()) == Some(&b'=') {
            return &w[k.len() + 1..];
        }
    }
    "none"
}

#[derive(Default)]
pub struct Topo {
    pub nodes: Vec<String>,
    pub procs: Vec<(String, String, bool)>,
    pub kinds: HashMap<String, String>,
    pub rule_tokens: Vec<(String, Vec<String>)>,
    pub rules: Vec<(String, Rule)>,
    pub net: Vec<Vec<String>>,
}

impl Topo {
    pub fn loc(&self) -> HashMap<String, String> {
        self.procs.iter().map(|(p, n, _)| (p.clone(), n.clone())).collect()
    }

    pub fn script_of(&self, proc: &str, record: bool) -> Rc<RefCell<Script>> {
        Rc::new(RefCell::new(Script {
            rules: self.rules.iter().filter(|(p, _)| p == proc).map(|(_, r)| r.clone()).collect(),
            record,
            canon: self.kinds.get(proc).map(|k| k == "canon").unwrap_or(false),
        }))
    }

    pub fn make_proc(&self, p: &str, rec: bool) -> Box<dyn anysystem::Process> {
        let kind = self.kinds.get(p).cloned().unwrap_or_default();
        if kind == "py" || kind == "pyd" || kind == "pys" || kind == "pyr" || kind == "pyo" || kind == "pyu" || kind == "pyn" {
            let toks: Vec<Vec<String>> = self.rule_tokens.iter().filter(|(q, _)| q == p).map(|(_, w)| w.clone()).collect();
            let class = if kind == "py" {
                "ScriptProc"
            } else if kind == "pys" {
                "ScriptProcShared"
            } else if kind == "pyr" {
                "ScriptProcRandom"
            } else if kind == "pyo" {
                "ScriptProcOrder"
            } else if kind == "pyu" {
                "ScriptProcUnpicklable"
            } else if kind == "pyn" {
                "ScriptProcNegative"
            } else {
                "ScriptProcDefault"
            };
            let f = anysystem::python::PyProcessFactory::new("/verif/harness/py/vscript.py", class);
            Box::new(f.build((rules_json(&toks), rec), 1))
        } else {
            Box::new(ScriptProc::new(self.script_of(p, rec)))
        }
    }

    pub fn build(&self, seed: u64) -> System {
        let mut sys = System::new(seed);
        for n in &self.nodes {
            sys.add_node(n);
        }
        for (p, n, rec) in &self.procs {
            sys.add_process(p, self.make_proc(p, *rec), n);
        }
        for op in &self.net {
            let ws: Vec<&str> = op.iter().map(|s| s.as_str()).collect();
            sim_net_op(&sys, &ws);
        }
        sys
    }
}

/// rate flags: "0" = 0.0, "1" = 0.5 (any positive value), other = literal f64
pub fn rate(tok: &str) -> f64 {
    match tok {
        "0" => 0.0,
        "1" => 0.5,
        t => t.parse().unwrap(),
    }
}

pub fn sim_net_op(sys: &System, ws: &[&str]) {
    let mut net = sys.network();
    match ws[0] {
        "drop" => net.set_drop_rate(rate(ws[1])),
        "dupl" => net.set_dupl_rate(rate(ws[1])),
        "corrupt" => net.set_corrupt_rate(rate(ws[1])),
        "drop_in" => net.drop_incoming(ws[1]),
        "drop_out" => net.drop_outgoing(ws[1]),
        "pass_in" => net.pass_incoming(ws[1]),
        "pass_out" => net.pass_outgoing(ws[1]),
        "disconnect" => net.disconnect_node(ws[1]),
        "connect" => net.connect_node(ws[1]),
        "disable" => net.disable_link(ws[1], ws[2]),
        "enable" => net.enable_link(ws[1], ws[2]),
        "partition" => {
            let pos = ws.iter().position(|x| *x == "/").unwrap();
            net.make_partition(&ws[1..pos], &ws[pos + 1..]);
        }
        "reset" => net.reset(),
        "delay" => net.set_delay(delay_of(ws[1].parse().unwrap())),
        "delays" => net.set_delays(delay_of(ws[1].parse().unwrap()), delay_of(ws[2].parse().unwrap())),
        _ => panic!("bad net op"),
    }
}

pub fn mc_cb_op(sys: &mut McSystem, loc: &HashMap<String, String>, ws: &[String]) {
    match ws[0].as_str() {
        "local" => {
            let node = loc[&ws[1]].clone();
            sys.send_local_message(node, ws[1].clone(), Message::new(ws[2].clone(), ws[3][1..].to_string()));
        }
        "crash" => sys.crash_node(ws[1].clone()),
        "mode" => sys.set_event_ordering_mode(if ws[1] == "mf" {
            EventOrderingMode::MessagesFirst
        } else {
            EventOrderingMode::Normal
        }),
        "net" => {
            let net = sys.network();
            match ws[1].as_str() {
                "drop" => net.set_drop_rate(rate(&ws[2])),
                "dupl" => net.set_dupl_rate(rate(&ws[2])),
                "corrupt" => net.set_corrupt_rate(rate(&ws[2])),
                "drop_in" => net.drop_incoming(&ws[2]),
                "drop_out" => net.drop_outgoing(&ws[2]),
                "disconnect" => net.disconnect_node(&ws[2]),
                "disable" => net.disable_link(&ws[2], &ws[3]),
                "partition" => {
                    let pos = ws.iter().position(|x| x == "/").unwrap();
                    net.partition(&ws[2..pos].to_vec(), &ws[pos + 1..].to_vec());
                }
                "reset" => net.reset(),
                _ => panic!("bad net op"),
            }
        }
        _ => panic!("bad callback op"),
    }
}

thread_local! {
    pub static PREDS: RefCell<bool> = RefCell::new(false);
    /// the network settings of the first state evaluated in the current run (canonical text)
    pub static FIRST_NET: RefCell<Option<String>> = RefCell::new(None);
}

pub struct Capped;

pub fn cap() -> usize {
    std::env::var("VH_CAP").ok().and_then(|v| v.parse().ok()).unwrap_or(1500)
}

pub struct RunOut {
    pub result: String,
    pub evaluated: Vec<String>,
    pub collected: Vec<String>,
    pub err_trace: Option<String>,
    pub stat: Vec<String>,
    pub collected_states: HashSet<McState>,
}

pub fn make_config(
    ws: &[&str],
    loc: &HashMap<String, String>,
    rec: Rc<RefCell<Vec<String>>>,
) -> StrategyConfig {
    FIRST_NET.with(|n| *n.borrow_mut() = None);
    crate::preds::reset_persistent();
    let inv = parse_cond(kv(ws, "inv"));
    let goal = parse_cond(kv(ws, "goal"));
    let prune = parse_cond(kv(ws, "prune"));
    let coll = parse_cond(kv(ws, "collect"));
    let (l1, l2, l3, l4) = (loc.clone(), loc.clone(), loc.clone(), loc.clone());
    let visited = match ws.get(2).copied().unwrap_or("full") {
        "full" => VisitedStates::Full(HashSet::default()),
        "partial" => VisitedStates::Partial(HashSet::default()),
        _ => VisitedStates::Disabled,
    };
    StrategyConfig::default()
        .invariant(Box::new(move |s: &McState| {
            if holds(&inv, &l1, s) {
                Err("inv".to_string())
            } else {
                Ok(())
            }
        }))
        // a goal / prune with several alternatives goes through the library's own combinators (one closure per alternative)
        .goal(if goal.len() > 1 {
            anysystem::mc::predicates::goals::any_goal(
                goal.iter()
                    .map(|a| {
                        let (a, l) = (vec![a.clone()], l2.clone());
                        Box::new(move |s: &McState| if holds(&a, &l, s) { Some("goal".to_string()) } else { None })
                            as anysystem::mc::GoalFn
                    })
                    .collect(),
            )
        } else {
            Box::new(move |s: &McState| {
                if holds(&goal, &l2, s) {
                    Some("goal".to_string())
                } else {
                    None
                }
            })
        })
        .prune(if prune.len() > 1 {
            anysystem::mc::predicates::prunes::any_prune(
                prune
                    .iter()
                    .map(|a| {
                        let (a, l) = (vec![a.clone()], l3.clone());
                        Box::new(move |s: &McState| if holds(&a, &l, s) { Some("prune".to_string()) } else { None })
                            as anysystem::mc::PruneFn
                    })
                    .collect(),
            )
        } else {
            Box::new(move |s: &McState| {
                if holds(&prune, &l3, s) {
                    Some("prune".to_string())
                } else {
                    None
                }
            })
        })
        .collect(Box::new(move |s: &McState| {
            if rec.borrow().len() >= cap() {
                // scenario too large for the correspondence run: abort it (reported as `capped`)
                std::panic::panic_any(Capped);
            }
            if rec.borrow().is_empty() {
                FIRST_NET.with(|n| *n.borrow_mut() = show_net(&format!("{:?}", s.network)));
            }
            if PREDS.with(|p| *p.borrow()) {
                rec.borrow_mut().push(format!("{} {}", show_state(s), crate::preds::battery(s)));
            } else {
                rec.borrow_mut().push(show_state(s));
            }
            holds(&coll, &l4, s)
        }))
        .execution_mode(if kv(ws, "xmode") == "default" {
            ExecutionMode::Default
        } else {
            ExecutionMode::Debug
        })
        .visited_states(visited)
}

pub fn summarize(res: McResult, rec: &Rc<RefCell<Vec<String>>>) -> RunOut {
    let evaluated = rec.borrow().clone();
    match res {
        Ok(stats) => {
            let mut collected: Vec<String> = stats
                .collected_states
                .iter()
                .map(|s| format!("{} T{}", show_state(s), show_trace(&s.trace)))
                .collect();
            collected.sort();
            let st: BTreeMap<String, u32> = stats.statuses.iter().map(|(k, v)| (k.clone(), *v)).collect();
            RunOut {
                result: "ok".to_string(),
                evaluated,
                collected,
                err_trace: None,
                stat: st.iter().map(|(k, v)| format!("{}:{}", k, v)).collect(),
                collected_states: stats.collected_states,
            }
        }
        Err(e) => {
            let msg = if e.message().starts_with("nothing left") {
                "deadend".to_string()
            } else {
                e.message()
            };
            let last = evaluated.last().cloned().unwrap_or_default();
            RunOut {
                result: format!("err:{}", msg),
                err_trace: Some(format!("{} T{}", last, show_trace(e.trace()))),
                evaluated,
                collected: vec![],
                stat: vec![],
                collected_states: HashSet::new(),
            }
        }
    }
}

/// canonical text of the checker's network settings, from the `Debug` rendering of the public `McState::network` field
/// (`McNetwork` has no getters): the three rates as the flags the checker's semantics depends on, the node and link sets sorted
pub fn show_net(dbg: &str) -> Option<String> {
    // `None` when the rendering does not have the expected fields (a harmless rename of a private field must not look like a
    // behavioural difference: the line is then omitted and the comparison of network settings is skipped)
    fn field<'a>(dbg: &'a str, name: &str) -> Option<&'a str> {
        let key = format!("{}: ", name);
        dbg.find(&key).map(|i| &dbg[i + key.len()..])
    }
    fn num(dbg: &str, name: &str) -> Option<f64> {
        let rest = field(dbg, name)?;
        let end = rest.find(|c: char| c == ',' || c == ' ' || c == '}').unwrap_or(rest.len());
        rest[..end].parse().ok()
    }
    fn set(dbg: &str, name: &str) -> Option<Vec<String>> {
        let rest = field(dbg, name)?;
        let end = rest.find('}')?;
        let inner = rest[..end].trim_start_matches('{');
        let mut names: Vec<String> = inner.split('"').skip(1).step_by(2).map(|x| x.to_string()).collect();
        if name == "disabled_links" {
            names = names.chunks(2).map(|c| format!("{}>{}", c[0], c.get(1).cloned().unwrap_or_default())).collect();
        }
        names.sort();
        Some(names)
    }
    let (dr, du, co) = (num(dbg, "drop_rate")?, num(dbg, "dupl_rate")?, num(dbg, "corrupt_rate")?);
    Some(format!(
        "drop={} dupl={} corrupt={} din={} dout={} links={} maxd={}",
        (dr > 0.0) as u8,
        (du != 0.0) as u8,
        (co > 0.0) as u8,
        show_list(&set(dbg, "drop_incoming")?),
        show_list(&set(dbg, "drop_outgoing")?),
        show_list(&set(dbg, "disabled_links")?),
        units_of(num(dbg, "max_delay")?)
    ))
}

/// the message of a caught panic, on one line
pub fn panic_text(e: &Box<dyn std::any::Any + Send>) -> String {
    let m = if let Some(s) = e.downcast_ref::<String>() {
        s.clone()
    } else if let Some(s) = e.downcast_ref::<&str>() {
        s.to_string()
    } else {
        "?".to_string()
    };
    m.replace('\n', " ").chars().take(160).collect()
}

pub fn run_lines(k: usize, out: &RunOut) -> Vec<String> {
    let mut v = vec![format!(
        "run {} result={} evaluated={} collected={}",
        k,
        out.result,
        out.evaluated.len(),
        out.collected.len()
    )];
    if let Some(n) = FIRST_NET.with(|n| n.borrow_mut().take()) {
        v.push(format!("NETS {}", n));
    }
    for e in &out.evaluated {
        v.push(format!("E {}", e));
    }
    for c in &out.collected {
        v.push(format!("C {}", c));
    }
    if let Some(t) = &out.err_trace {
        v.push(format!("T {}", t));
    }
    if out.result == "ok" {
        v.push(format!("stat {}", show_list(&out.stat)));
    }
    v
}

pub fn print_run(k: usize, out: &RunOut) {
    for l in run_lines(k, out) {
        println!("{}", l);
    }
}

struct Scenario {
    topo: Topo,
    cbs: Vec<Vec<String>>,
    sys: Option<System>,
    mc: Option<ModelChecker>,
    collected: HashSet<McState>,
    runs: usize,
    dead: bool,
}

impl Scenario {
    fn new() -> Self {
        Self {
            topo: Topo::default(),
            cbs: vec![],
            sys: None,
            mc: None,
            collected: HashSet::new(),
            runs: 0,
            dead: false,
        }
    }
}

pub fn run() {
    let stdin = std::io::stdin();
    let mut sc = Scenario::new();
    for line in stdin.lock().lines() {
        let line = line.unwrap();
        let ws: Vec<&str> = line.split_whitespace().collect();
        if ws.is_empty() {
            continue;
        }
        match ws[0] {
            "preds" => PREDS.with(|p| *p.borrow_mut() = true),
            "begin" => {
                PREDS.with(|p| *p.borrow_mut() = false);
                sc = Scenario::new();
                println!("{}", line.trim());
            }
            "end" => println!("end"),
            "cfg" | "refenum" => {}
            "node" => sc.topo.nodes.push(ws[1].to_string()),
            "proc" => {
                sc.topo
                    .procs
                    .push((ws[1].to_string(), ws[2].to_string(), ws[3..].contains(&"rec")));
                for k in ["py", "pyd", "pys", "pyr", "pyo", "pyu", "pyn", "canon"] {
                    if ws[3..].contains(&k) {
                        sc.topo.kinds.insert(ws[1].to_string(), k.to_string());
                    }
                }
            }
            "rule" => {
                sc.topo.rules.push((ws[1].to_string(), parse_rule(&ws[2..])));
                sc.topo
                    .rule_tokens
                    .push((ws[1].to_string(), ws[2..].iter().map(|x| x.to_string()).collect()));
            }
            "net" => sc.topo.net.push(ws[1..].iter().map(|s| s.to_string()).collect()),
            "cb" => sc.cbs.push(ws[1..].iter().map(|s| s.to_string()).collect()),
            "run" | "runfrom" => {
                let k = sc.runs;
                sc.runs += 1;
                if sc.dead {
                    println!("run {} skipped", k);
                    continue;
                }
                let loc = sc.topo.loc();
                let res = catch_unwind(AssertUnwindSafe(|| {
                    if sc.mc.is_none() {
                        let sys = sc.topo.build(12345);
                        sc.mc = Some(ModelChecker::new(&sys));
                        sc.sys = Some(sys);
                    }
                    let rec = Rc::new(RefCell::new(Vec::new()));
                    let config = make_config(&ws, &loc, rec.clone());
                    let cbs = sc.cbs.clone();
                    let loc2 = loc.clone();
                    let cb = move |sys: &mut McSystem| {
                        for op in &cbs {
                            mc_cb_op(sys, &loc2, op);
                        }
                    };
                    let mc = sc.mc.as_mut().unwrap();
                    let bfs = ws.get(1) == Some(&"bfs");
                    // without callback operations the plain entry points are used (`run`, `run_from_states`)
                    let plain = sc.cbs.is_empty();
                    let res = if ws[0] == "runfrom" {
                        let states = sc.collected.clone();
                        match (bfs, plain) {
                            (true, true) => mc.run_from_states::<Bfs>(config, states),
                            (false, true) => mc.run_from_states::<Dfs>(config, states),
                            (true, false) => mc.run_from_states_with_change::<Bfs>(config, states, cb),
                            (false, false) => mc.run_from_states_with_change::<Dfs>(config, states, cb),
                        }
                    } else {
                        match (bfs, plain) {
                            (true, true) => mc.run::<Bfs>(config),
                            (false, true) => mc.run::<Dfs>(config),
                            (true, false) => mc.run_with_change::<Bfs>(config, cb),
                            (false, false) => mc.run_with_change::<Dfs>(config, cb),
                        }
                    };
                    summarize(res, &rec)
                }));
                sc.cbs.clear();
                match res {
                    Ok(out) => {
                        print_run(k, &out);
                        sc.collected = out.collected_states;
                    }
                    Err(e) => {
                        if e.downcast_ref::<Capped>().is_some() {
                            println!("run {} result=capped", k);
                        } else {
                            println!("run {} result=panic", k);
                            println!("PANIC {}", panic_text(&e));
                        }
                        sc.dead = true;
                    }
                }
            }
            _ => println!("bad-op {}", line.trim()),
        }
    }
}
