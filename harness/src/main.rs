mod eqprobe;
mod canon;
mod fpprobe;
mod mc;
mod preds;
mod script;
mod sim;
mod store;

fn main() {
    // panics are observations; keep stderr quiet
    if std::env::var("VH_PANIC").is_err() {
        std::panic::set_hook(Box::new(|_| {}));
    }
    let args: Vec<String> = std::env::args().collect();
    match args.get(1).map(|s| s.as_str()) {
        Some("store") => store::run(),
        Some("mc") => mc::run(),
        Some("sim") => sim::run(),
        Some("eqprobe") => eqprobe::run(),
        Some("fpprobe") => fpprobe::run(args.get(2).and_then(|s| s.parse().ok()).unwrap_or(5)),
        Some("draws") => sim::draws(args[2].parse().unwrap(), args[3].parse().unwrap()),
        _ => {
            eprintln!("usage: vh store|mc|sim|pred|py ...");
            std::process::exit(2);
        }
    }
}
