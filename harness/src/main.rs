mod canon;
mod mc;
mod script;
mod store;

fn main() {
    // panics are observations; keep stderr quiet
    std::panic::set_hook(Box::new(|_| {}));
    let args: Vec<String> = std::env::args().collect();
    match args.get(1).map(|s| s.as_str()) {
        Some("store") => store::run(),
        Some("mc") => mc::run(),
        _ => {
            eprintln!("usage: vh store|mc|sim|pred|py ...");
            std::process::exit(2);
        }
    }
}
