//! Identity probe (C11): the public value types that make up the model checker's state identity compare and hash by ALL
//! their fields.  Values are taken from small grids; two values are "the same" iff they were built from the same field values.
use std::collections::hash_map::DefaultHasher;
use std::fmt::Debug;
use std::hash::{Hash, Hasher};

use anysystem::mc::network::DeliveryOptions;
use anysystem::mc::{McEvent, McTime};
use anysystem::Message;

fn h<T: Hash>(x: &T) -> u64 {
    let mut s = DefaultHasher::new();
    x.hash(&mut s);
    s.finish()
}

fn check<T: Eq + Hash + Debug>(name: &str, vals: &[T], keys: &[String]) {
    let mut bad = String::from("none");
    let mut pairs = 0;
    'outer: for (i, a) in vals.iter().enumerate() {
        for (j, b) in vals.iter().enumerate() {
            pairs += 1;
            let same = keys[i] == keys[j];
            if (a == b) != same {
                bad = format!("eq={} for [{}] vs [{}]", a == b, keys[i], keys[j]);
                break 'outer;
            }
            if same && h(a) != h(b) {
                bad = format!("hash differs for equal values [{}]", keys[i]);
                break 'outer;
            }
        }
    }
    println!("eqprobe type={} values={} pairs={} bad={}", name, vals.len(), pairs, bad);
}

pub fn run() {
    let mut opts = Vec::new();
    let mut okeys: Vec<String> = Vec::new();
    for d in [0.0, 0.5, 1.0] {
        opts.push(DeliveryOptions::NoFailures(McTime::from(d)));
        okeys.push(format!("NoFailures({})", d));
    }
    for drop in [false, true] {
        for dupl in [0u32, 1, 2] {
            for cor in [false, true] {
                opts.push(DeliveryOptions::PossibleFailures {
                    can_be_dropped: drop,
                    max_dupl_count: dupl,
                    can_be_corrupted: cor,
                });
                okeys.push(format!("PossibleFailures(drop={},dupl={},corrupt={})", drop, dupl, cor));
            }
        }
    }
    check("DeliveryOptions", &opts, &okeys);

    let mut msgs = Vec::new();
    let mut mkeys = Vec::new();
    for tip in ["a", "b", "ab", "ba"] {
        for data in ["", "x", "y", "xy", "yx"] {
            msgs.push(Message::new(tip, data));
            mkeys.push(format!("{}|{}", tip, data));
        }
    }
    check("Message", &msgs, &mkeys);
    // the total order on messages (keys of the checker's ordered maps) is consistent with equality
    let mut obad = String::from("none");
    'o: for (i, a) in msgs.iter().enumerate() {
        for (j, b) in msgs.iter().enumerate() {
            if (a.cmp(b) == std::cmp::Ordering::Equal) != (mkeys[i] == mkeys[j]) || a.cmp(b) != b.cmp(a).reverse() {
                obad = format!("cmp={:?} for [{}] vs [{}]", a.cmp(b), mkeys[i], mkeys[j]);
                break 'o;
            }
        }
    }
    println!("eqprobe type=Message-Ord values={} pairs={} bad={}", msgs.len(), msgs.len() * msgs.len(), obad);

    let mut evs = Vec::new();
    let mut ekeys = Vec::new();
    for (mi, m) in msgs.iter().enumerate().filter(|(i, _)| [1usize, 2, 6, 11].contains(i)) {
        for src in ["p0", "p1"] {
            for dst in ["p0", "p1"] {
                for oi in [0usize, 1, 3, 5, 7, 8, 14] {
                    evs.push(McEvent::MessageReceived {
                        msg: m.clone(),
                        src: src.to_string(),
                        dst: dst.to_string(),
                        options: opts[oi].clone(),
                    });
                    ekeys.push(format!("M|{}|{}|{}|{}", mkeys[mi], src, dst, okeys[oi]));
                }
            }
        }
    }
    for p in ["p0", "p1"] {
        for t in ["t0", "t1"] {
            for d in [0.0, 0.5, 1.0] {
                evs.push(McEvent::TimerFired {
                    proc: p.to_string(),
                    timer: t.to_string(),
                    timer_delay: McTime::from(d),
                });
                ekeys.push(format!("T|{}|{}|{}", p, t, d));
            }
            evs.push(McEvent::TimerCancelled { proc: p.to_string(), timer: t.to_string() });
            ekeys.push(format!("C|{}|{}", p, t));
        }
    }
    check("McEvent", &evs, &ekeys);
}
