//! The predicate battery: every library predicate of `anysystem::mc::predicates` evaluated with
//! boundary parameters on a real `McState` (mirrors `Driver/PredCmd.lean`).
use std::cell::RefCell;
use std::collections::HashSet;
use std::panic::{catch_unwind, AssertUnwindSafe};
use std::rc::Rc;

use anysystem::logger::LogEntry;
use anysystem::mc::predicates::{collects, goals, invariants, prunes};
use anysystem::mc::McState;

fn b(x: bool) -> char {
    if x {
        '1'
    } else {
        '0'
    }
}

fn tri(f: &mut dyn FnMut(u64) -> char, x: u64) -> String {
    [f(x.saturating_sub(1)), f(x), f(x + 1)].iter().collect()
}

fn guarded(f: impl FnOnce() -> bool) -> char {
    match catch_unwind(AssertUnwindSafe(f)) {
        Ok(v) => b(v),
        Err(_) => 'p',
    }
}

/// Built-in predicates kept alive across all the states of one run (as a user's StrategyConfig keeps them), to be compared
/// with freshly built ones on every state: a predicate's verdict depends on the state it is given, not on what it was
/// given before.
type Verdict = Box<dyn FnMut(&McState) -> bool>;
type Maker = Box<dyn Fn() -> Verdict>;

thread_local! {
    static PERSIST: RefCell<Vec<(Maker, Verdict)>> = RefCell::new(vec![]);
}

/// called at the start of every run: forget the closures of the previous run
pub fn reset_persistent() {
    PERSIST.with(|p| p.borrow_mut().clear());
}

fn makers(pnames: &[String]) -> Vec<Maker> {
    let mut v: Vec<Maker> = vec![];
    for k in [0usize, 1, 2, 3] {
        v.push(Box::new(move || {
            let mut f = prunes::events_limit(|e: &LogEntry| e.is_mc_message_received(), k);
            Box::new(move |s: &McState| f(s).is_some())
        }));
        v.push(Box::new(move || {
            let mut f = prunes::events_limit(|e: &LogEntry| e.is_mc_timer_fired() || e.is_mc_message_dropped(), k);
            Box::new(move |s: &McState| f(s).is_some())
        }));
        let pn = pnames.to_vec();
        v.push(Box::new(move || {
            let mut f = prunes::events_limit_per_proc(
                |e: &LogEntry, q: &String| matches!(e, LogEntry::McMessageReceived { src, dst, .. } if src == q || dst == q),
                pn.clone(),
                k,
            );
            Box::new(move |s: &McState| f(s).is_some())
        }));
        v.push(Box::new(move || {
            let mut f = prunes::sent_messages_limit(k as u64);
            Box::new(move |s: &McState| f(s).is_some())
        }));
        v.push(Box::new(move || {
            let mut f = prunes::state_depth(k as u64 + 1);
            Box::new(move |s: &McState| f(s).is_some())
        }));
        v.push(Box::new(move || {
            let mut f = invariants::state_depth(k as u64 + 1);
            Box::new(move |s: &McState| f(s).is_err())
        }));
        v.push(Box::new(move || {
            let mut f = invariants::state_depth_current_run(k as u64 + 1);
            Box::new(move |s: &McState| f(s).is_err())
        }));
        v.push(Box::new(move || {
            let mut f = goals::event_happened_n_times_current_run(|e: &LogEntry| e.is_mc_message_received(), k);
            Box::new(move |s: &McState| f(s).is_some())
        }));
        v.push(Box::new(move || {
            let mut f = goals::depth_reached(k as u64 + 1);
            Box::new(move |s: &McState| f(s).is_some())
        }));
        v.push(Box::new(move || {
            let mut f = collects::state_depth(k as u64 + 1);
            Box::new(move |s: &McState| f(s))
        }));
    }
    v.push(Box::new(|| {
        let mut f = goals::no_events();
        Box::new(move |s: &McState| f(s).is_some())
    }));
    // the combinators, with sub-predicates that fire in no particular order along an exploration
    for k in [1u64, 2, 3] {
        v.push(Box::new(move || {
            let mut f = goals::any_goal(vec![goals::depth_reached(k + 1), goals::no_events()]);
            Box::new(move |s: &McState| f(s).is_some())
        }));
        v.push(Box::new(move || {
            let mut f = goals::any_goal(vec![goals::no_events(), goals::depth_reached(k)]);
            Box::new(move |s: &McState| f(s).is_some())
        }));
        v.push(Box::new(move || {
            let mut f = goals::all_goals(vec![goals::depth_reached(k), goals::no_events()]);
            Box::new(move |s: &McState| f(s).is_some())
        }));
        v.push(Box::new(move || {
            let mut f = prunes::any_prune(vec![prunes::state_depth(k + 1), prunes::sent_messages_limit(k)]);
            Box::new(move |s: &McState| f(s).is_some())
        }));
        v.push(Box::new(move || {
            let mut f = invariants::all_invariants(vec![invariants::state_depth(k + 1), invariants::state_depth_current_run(k + 2)]);
            Box::new(move |s: &McState| f(s).is_err())
        }));
        v.push(Box::new(move || {
            let mut f = collects::any_collect(vec![collects::state_depth(k + 1), collects::no_events()]);
            Box::new(move |s: &McState| f(s))
        }));
        v.push(Box::new(move || {
            let mut f = collects::all_collects(vec![collects::state_depth(k), collects::no_events()]);
            Box::new(move |s: &McState| f(s))
        }));
    }
    v
}

fn persistent_agree(s: &McState, pnames: &[String]) -> bool {
    PERSIST.with(|p| {
        let mut p = p.borrow_mut();
        if p.is_empty() {
            for m in makers(pnames) {
                let kept = m();
                p.push((m, kept));
            }
        }
        let mut ok = true;
        for (mk, kept) in p.iter_mut() {
            let mut fresh = mk();
            let a = catch_unwind(AssertUnwindSafe(|| kept(s))).ok();
            let b = catch_unwind(AssertUnwindSafe(|| fresh(s))).ok();
            ok &= a == b;
        }
        ok
    })
}

pub fn battery(s: &McState) -> String {
    let d = s.depth;
    // the current run's part of the trace, by the documentation: from the latest McStarted entry on.  Computed here
    // and not with `McState::current_run_trace`, which is code under test
    let cur_start = s.trace.iter().rposition(|e| matches!(e, LogEntry::McStarted { .. })).unwrap_or(0);
    let cur = &s.trace[cur_start..];
    let l = cur.len() as u64;
    let mut procs: Vec<(String, String)> = vec![];
    for (n, ns) in &s.node_states {
        for p in ns.proc_states.keys() {
            procs.push((n.clone(), p.clone()));
        }
    }
    let (n0, p0) = procs.first().cloned().unwrap_or(("n0".into(), "p0".into()));
    let outbox = s
        .node_states
        .get(&n0)
        .and_then(|ns| ns.proc_states.get(&p0))
        .map(|e| e.local_outbox.clone())
        .unwrap_or_default();
    let ol = outbox.len() as u64;
    let mut datas: Vec<String> = vec![];
    for m in &outbox {
        if !datas.contains(&m.data) {
            datas.push(m.data.clone());
        }
    }
    let mx = s
        .node_states
        .values()
        .flat_map(|ns| ns.proc_states.values().map(|e| e.sent_message_count))
        .max()
        .unwrap_or(0);
    let tf = cur.iter().filter(|e| e.is_mc_timer_fired()).count() as u64;
    let dr = s.trace.iter().filter(|e| e.is_mc_message_dropped()).count() as u64;
    let pnames: Vec<String> = procs.iter().map(|x| x.1.clone()).collect();
    let fired_by = |e: &LogEntry, q: &String| matches!(e, LogEntry::McTimerFired { proc, .. } if proc == q);
    let mtf = pnames
        .iter()
        .map(|q| s.trace.iter().filter(|e| fired_by(e, q)).count() as u64)
        .max()
        .unwrap_or(0);
    let set_of = |v: &[String]| v.iter().cloned().collect::<HashSet<String>>();
    let mut items: Vec<String> = vec![];
    items.push(format!("isd={}", tri(&mut |x| b(invariants::state_depth(x)(s).is_err()), d)));
    items.push(format!(
        "isdc={}",
        tri(&mut |x| b(invariants::state_depth_current_run(x)(s).is_err()), l)
    ));
    items.push(format!("isd0={}", b(invariants::state_depth_current_run(0)(s).is_err())));
    let mut plus = datas.clone();
    plus.push("zz".to_string());
    let minus: Vec<String> = datas.iter().skip(1).cloned().collect();
    items.push(format!(
        "irm={}{}{}",
        guarded(|| invariants::received_messages(n0.clone(), p0.clone(), set_of(&datas))(s).is_err()),
        guarded(|| invariants::received_messages(n0.clone(), p0.clone(), set_of(&minus))(s).is_err()),
        guarded(|| invariants::received_messages(n0.clone(), p0.clone(), set_of(&plus))(s).is_err())
    ));
    items.push(format!(
        "ggn={}",
        tri(
            &mut |x| guarded(|| goals::got_n_local_messages(n0.clone(), p0.clone(), x as usize)(s).is_some()),
            ol
        )
    ));
    items.push(format!("gne={}", b(goals::no_events()(s).is_some())));
    items.push(format!("gdr={}", tri(&mut |x| b(goals::depth_reached(x)(s).is_some()), d)));
    items.push(format!(
        "geh={}",
        tri(
            &mut |x| b(goals::event_happened_n_times_current_run(|e: &LogEntry| e.is_mc_timer_fired(), x as usize)(s).is_some()),
            tf
        )
    ));
    items.push(format!(
        "gany={}",
        b(goals::any_goal(vec![goals::no_events(), goals::depth_reached(d + 1)])(s).is_some())
    ));
    items.push(format!(
        "gall={}",
        b(goals::all_goals(vec![goals::always_ok(), goals::no_events()])(s).is_some())
    ));
    items.push(format!("psd={}", tri(&mut |x| b(prunes::state_depth(x)(s).is_some()), d)));
    items.push(format!("psm={}", tri(&mut |x| b(prunes::sent_messages_limit(x)(s).is_some()), mx)));
    items.push(format!(
        "pel={}",
        tri(
            &mut |x| b(prunes::events_limit(|e: &LogEntry| e.is_mc_message_dropped(), x as usize)(s).is_some()),
            dr
        )
    ));
    items.push(format!(
        "pep={}",
        tri(
            &mut |x| b(prunes::events_limit_per_proc(
                |e: &LogEntry, q: &String| matches!(e, LogEntry::McTimerFired { proc, .. } if proc == q),
                pnames.clone(),
                x as usize
            )(s)
            .is_some()),
            mtf
        )
    ));
    // a per-process predicate that matches one entry for two processes (sender and receiver of a delivery): every listed
    // process is counted on its own
    let involved = |e: &LogEntry, q: &String| matches!(e, LogEntry::McMessageReceived { src, dst, .. } if src == q || dst == q);
    let mi = pnames
        .iter()
        .map(|q| s.trace.iter().filter(|e| involved(e, q)).count() as u64)
        .max()
        .unwrap_or(0);
    items.push(format!(
        "pei={}",
        tri(
            &mut |x| b(prunes::events_limit_per_proc(involved, pnames.clone(), x as usize)(s).is_some()),
            mi
        )
    ));
    let rev: Vec<String> = pnames.iter().rev().cloned().collect();
    items.push(format!(
        "ppp={}{}",
        guarded(|| prunes::proc_permutations(&pnames)(s).is_some()),
        guarded(|| prunes::proc_permutations(&rev)(s).is_some())
    ));
    // processes in the order of their first mention in the current run (computed here, not by the library)
    let mut fm: Vec<String> = vec![];
    for e in cur {
        let q = match e {
            LogEntry::McMessageReceived { src, .. } => Some(src.clone()),
            LogEntry::McTimerFired { proc, .. } => Some(proc.clone()),
            _ => None,
        };
        if let Some(q) = q {
            if !fm.contains(&q) {
                fm.push(q);
            }
        }
    }
    items.push(format!("fm={}", fm.join(".")));
    items.push(format!("csd={}", tri(&mut |x| b(collects::state_depth(x)(s)), d)));
    // the combinators over an empty list, by their documentation ("iff all …" is vacuously true, "iff at least one …" false)
    items.push(format!(
        "emp={}{}{}{}{}{}",
        b(invariants::all_invariants(vec![])(s).is_ok()),
        b(goals::any_goal(vec![])(s).is_some()),
        b(goals::all_goals(vec![])(s).is_some()),
        b(prunes::any_prune(vec![])(s).is_some()),
        b(collects::any_collect(vec![])(s)),
        b(collects::all_collects(vec![])(s))
    ));
    // the same built-in predicates kept across the states of this run vs built afresh for this state
    items.push(format!("pst={}", b(persistent_agree(s, &pnames))));
    // short-circuit of all_invariants: the counting rules record how often they were invoked
    let c1 = Rc::new(RefCell::new(0u64));
    let c2 = Rc::new(RefCell::new(0u64));
    let (a1, a2) = (c1.clone(), c2.clone());
    let lim = d.saturating_sub(1);
    let mut first = invariants::state_depth(lim);
    let mut combined = invariants::all_invariants(vec![
        Box::new(move |st: &McState| {
            *a1.borrow_mut() += 1;
            first(st)
        }),
        Box::new(move |_: &McState| {
            *a2.borrow_mut() += 1;
            Ok(())
        }),
    ]);
    let _ = combined(s);
    items.push(format!("sc=[{}, {}]", c1.borrow(), c2.borrow()));
    format!("P[{}]", items.join(" "))
}
