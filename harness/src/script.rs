//! Table-driven script processes shared by the harness, the Lean driver and the Python twin.
//!
//! `rule <proc> <st> <trig> <st'> <action>*` with triggers `L:m0` (local message of type m0),
//! `M:m0` (network message), `T:t0` (timer) and actions `S:m1:<data>:p1` (send), `L:m1:<data>`
//! (send_local), `T:t0:3` (set_timer, delay in half units or `x<hex>` = raw f64 bits), `O:t0:3` (set_timer_once), `C:t0`
//! (cancel_timer), `K:m1` (send_local carrying the clock reading), `R:m1` (send_local carrying
//! ctx.rand() bits).  `<data>` is `=text` (literal) or `$` (echo the triggering payload).
use std::cell::RefCell;
use std::rc::Rc;

use anysystem::process::StringProcessState;
use anysystem::{Context, Message, Process, ProcessState};

#[derive(Clone, Debug, PartialEq)]
pub enum Data {
    Lit(String),
    Echo,
}

#[derive(Clone, Debug, PartialEq)]
pub enum Act {
    Send(String, Data, String),
    Local(String, Data),
    Set(String, f64),
    Once(String, f64),
    Cancel(String),
    Clock(String),
    Rand(String),
    Fail,
}

#[derive(Clone, Debug)]
pub struct Rule {
    pub st: u64,
    pub trig: String, // "L:m0" | "M:m0" | "T:t0"
    pub st2: u64,
    pub acts: Vec<Act>,
}

#[derive(Clone, Debug, Default)]
pub struct Script {
    pub rules: Vec<Rule>,
    pub record: bool,
    /// emit the actions in the order the Python bridge relays them: sends, local sends, timer operations
    pub canon: bool,
}

pub fn parse_data(tok: &str) -> Data {
    if tok == "$" {
        Data::Echo
    } else {
        Data::Lit(tok[1..].to_string())
    }
}

pub fn parse_act(tok: &str) -> Act {
    let parts: Vec<&str> = tok.splitn(4, ':').collect();
    match parts[0] {
        "S" => {
            // S:m1:<data>:p1  (data has no ':')
            Act::Send(parts[1].to_string(), parse_data(parts[2]), parts[3].to_string())
        }
        "L" => Act::Local(parts[1].to_string(), parse_data(parts[2])),
        "T" => Act::Set(parts[1].to_string(), tok_delay(parts[2])),
        "O" => Act::Once(parts[1].to_string(), tok_delay(parts[2])),
        "C" => Act::Cancel(parts[1].to_string()),
        "K" => Act::Clock(parts[1].to_string()),
        "R" => Act::Rand(parts[1].to_string()),
        "X" => Act::Fail,
        _ => panic!("bad action {}", tok),
    }
}

pub fn parse_rule(ws: &[&str]) -> Rule {
    Rule {
        st: ws[0].parse().unwrap(),
        trig: ws[1].to_string(),
        st2: ws[2].parse().unwrap(),
        acts: ws[3..].iter().map(|t| parse_act(t)).collect(),
    }
}

/// delays travel as integers in half units
/// rules as the JSON the Python twin parses: [[st, trig, st2, [action tokens]], ...]
pub fn rules_json(rule_lines: &[Vec<String>]) -> String {
    let items: Vec<String> = rule_lines
        .iter()
        .map(|w| {
            let acts: Vec<String> = w[3..].iter().map(|a| format!("{:?}", a)).collect();
            format!("[{}, {:?}, {}, [{}]]", w[0], w[1], w[2], acts.join(", "))
        })
        .collect();
    format!("[{}]", items.join(", "))
}

pub fn delay_of(units: u64) -> f64 {
    units as f64 * 0.5
}

/// a delay token: integer = half units, `x<hex>` = raw f64 bits
pub fn tok_delay(tok: &str) -> f64 {
    match tok.strip_prefix('x') {
        Some(h) => f64::from_bits(u64::from_str_radix(h, 16).unwrap()),
        None => delay_of(tok.parse().unwrap()),
    }
}

pub fn units_of(delay: f64) -> String {
    let u = delay * 2.0;
    if u >= 0.0 && u.fract() == 0.0 && u < 1e15 {
        format!("{}", u as u64)
    } else {
        format!("x{:016x}", delay.to_bits())
    }
}

pub fn trig_code(trig: &str) -> u64 {
    let kind = match &trig[0..1] {
        "L" => 0,
        "M" => 1,
        _ => 2,
    };
    let key: u64 = trig[3..].parse().unwrap();
    kind * 1000 + key
}

pub struct ScriptProc {
    pub script: Rc<RefCell<Script>>,
    pub st: u64,
    pub hist: Vec<u64>,
    /// number of `Context` calls this instance's handlers have issued (the process's own account of what it did; compared
    /// with its event log, which is code under test).  A clone (the model checker's copy) counts on its own.
    pub issued: Rc<RefCell<Vec<String>>>,
}

impl Clone for ScriptProc {
    fn clone(&self) -> Self {
        Self {
            script: self.script.clone(),
            st: self.st,
            hist: self.hist.clone(),
            issued: Rc::new(RefCell::new(self.issued.borrow().clone())),
        }
    }
}

impl ScriptProc {
    pub fn new(script: Rc<RefCell<Script>>) -> Self {
        Self {
            script,
            st: 0,
            hist: vec![],
            issued: Rc::new(RefCell::new(vec![])),
        }
    }

    pub fn state_string(st: u64, hist: &[u64]) -> String {
        let h: Vec<String> = hist.iter().map(|x| x.to_string()).collect();
        format!("{}|{}", st, h.join("."))
    }

    fn react(&mut self, trig: String, data: &str, ctx: &mut Context) -> Result<(), String> {
        if self.script.borrow().record {
            self.hist.push(trig_code(&trig));
        }
        let rule = self
            .script
            .borrow()
            .rules
            .iter()
            .find(|r| r.st == self.st && r.trig == trig)
            .cloned();
        if let Some(rule) = rule {
            self.st = rule.st2;
            let mut acts: Vec<Act> = vec![];
            // a failing handler issues nothing (the Python twin raises before anything is relayed)
            if rule.acts.iter().any(|a| *a == Act::Fail) {
                return Err("scripted failure".to_string());
            }
            if self.script.borrow().canon {
                acts.extend(rule.acts.iter().filter(|a| matches!(a, Act::Send(..))).cloned());
                acts.extend(rule.acts.iter().filter(|a| matches!(a, Act::Local(..) | Act::Clock(..) | Act::Rand(..))).cloned());
                acts.extend(rule.acts.iter().filter(|a| matches!(a, Act::Set(..) | Act::Once(..) | Act::Cancel(..))).cloned());
            } else {
                acts = rule.acts.clone();
            }
            for act in &acts {
                // the process's own record of the call, in a compact form the harness can also derive from the event log
                let rec = match act {
                    Act::Send(tip, _, dst) => Some(format!("S:{}:{}", tip, dst)),
                    Act::Local(tip, _) | Act::Clock(tip) | Act::Rand(tip) => Some(format!("L:{}", tip)),
                    Act::Set(name, d) => Some(format!("T:{}:{}:0", name, units_of(*d))),
                    Act::Once(name, d) => Some(format!("T:{}:{}:1", name, units_of(*d))),
                    Act::Cancel(name) => Some(format!("C:{}", name)),
                    Act::Fail => None,
                };
                if let Some(r) = rec {
                    self.issued.borrow_mut().push(r);
                }
                let dat = |d: &Data| match d {
                    Data::Lit(s) => s.clone(),
                    Data::Echo => data.to_string(),
                };
                match act {
                    Act::Send(tip, d, dst) => ctx.send(Message::new(tip.clone(), dat(d)), dst.clone()),
                    Act::Local(tip, d) => ctx.send_local(Message::new(tip.clone(), dat(d))),
                    Act::Set(name, d) => ctx.set_timer(name, *d),
                    Act::Once(name, d) => ctx.set_timer_once(name, *d),
                    Act::Cancel(name) => ctx.cancel_timer(name),
                    Act::Clock(tip) => {
                        let t = ctx.time();
                        if self.script.borrow().canon {
                            // twin of the Python process: its payloads are JSON texts
                            ctx.send_local(Message::new(tip.clone(), format!("\"{:016x}\"", t.to_bits())))
                        } else {
                            ctx.send_local(Message::new(tip.clone(), format!("{:016x}", t.to_bits())))
                        }
                    }
                    Act::Rand(tip) => {
                        let r = ctx.rand();
                        ctx.send_local(Message::new(tip.clone(), format!("{:016x}", r.to_bits())))
                    }
                    Act::Fail => {}
                }
            }
        }
        Ok(())
    }
}

impl Process for ScriptProc {
    fn on_message(&mut self, msg: Message, _from: String, ctx: &mut Context) -> Result<(), String> {
        self.react(format!("M:{}", msg.tip), &msg.data, ctx)
    }

    fn on_local_message(&mut self, msg: Message, ctx: &mut Context) -> Result<(), String> {
        self.react(format!("L:{}", msg.tip), &msg.data, ctx)
    }

    fn on_timer(&mut self, timer: String, ctx: &mut Context) -> Result<(), String> {
        self.react(format!("T:{}", timer), "", ctx)
    }

    fn state(&self) -> Result<Rc<dyn ProcessState>, String> {
        Ok(Rc::new(Self::state_string(self.st, &self.hist)))
    }

    fn set_state(&mut self, state: Rc<dyn ProcessState>) -> Result<(), String> {
        let data = (*state.downcast_rc::<StringProcessState>().unwrap()).clone();
        let (a, b) = data.split_once('|').unwrap();
        self.st = a.parse().unwrap();
        self.hist = if b.is_empty() {
            vec![]
        } else {
            b.split('.').map(|x| x.parse().unwrap()).collect()
        };
        Ok(())
    }
}
