//! `vh store`: drives the real `PendingEvents` (through the `anysystem_verif` hooks) with one
//! operation per line and prints one canonical observation per operation.
use std::io::BufRead;
use std::panic::{catch_unwind, AssertUnwindSafe};

use anysystem::mc::network::DeliveryOptions;
use anysystem::mc::verif::PendingEvents;
use anysystem::mc::{EventOrderingMode, McEvent, McTime};
use anysystem::Message;

use crate::canon::*;
use crate::script::delay_of;

pub fn parse_opts(tok: &str) -> DeliveryOptions {
    let b = tok.as_bytes();
    if b[0] == b'N' {
        DeliveryOptions::NoFailures(McTime::from(delay_of(tok[1..].parse().unwrap())))
    } else {
        DeliveryOptions::PossibleFailures {
            can_be_dropped: b[1] == b'1',
            max_dupl_count: (b[2] - b'0') as u32,
            can_be_corrupted: b[3] == b'1',
        }
    }
}

fn msg_event(ws: &[&str]) -> McEvent {
    McEvent::MessageReceived {
        msg: Message::new(ws[0].to_string(), ws[1][1..].to_string()),
        src: ws[2].to_string(),
        dst: ws[3].to_string(),
        options: parse_opts(ws[4]),
    }
}

fn timer_event(ws: &[&str]) -> McEvent {
    McEvent::TimerFired {
        proc: ws[0].to_string(),
        timer: ws[1].to_string(),
        // half units, or the raw bits of the double (`x<16 hex digits>`)
        timer_delay: McTime::from(match ws[2].strip_prefix('x') {
            Some(h) => f64::from_bits(u64::from_str_radix(h, 16).unwrap()),
            None => delay_of(ws[2].parse().unwrap()),
        }),
    }
}

pub fn obs_store(s: &PendingEvents) -> String {
    let live: Vec<String> = s
        .verif_live()
        .iter()
        .map(|(i, e)| format!("{}:{}", i, show_ev(e)))
        .collect();
    let raw: Vec<String> = s.verif_available_raw().iter().map(|x| x.to_string()).collect();
    let off = match catch_unwind(AssertUnwindSafe(|| s.verif_available(&EventOrderingMode::Normal))) {
        Ok(set) => show_list(&set.iter().map(|x| x.to_string()).collect::<Vec<_>>()),
        Err(_) => "panic".to_string(),
    };
    let offm = match catch_unwind(AssertUnwindSafe(|| s.verif_available(&EventOrderingMode::MessagesFirst))) {
        Ok(set) => show_list(&set.iter().map(|x| x.to_string()).collect::<Vec<_>>()),
        Err(_) => "panic".to_string(),
    };
    let tm: Vec<String> = s
        .verif_timer_mapping()
        .iter()
        .map(|((p, t), id)| format!("{}.{}:{}", p, t, id))
        .collect();
    format!(
        "live={} raw={} off={} offm={} tm={} next={}",
        show_list(&live),
        show_list(&raw),
        off,
        offm,
        show_list(&tm),
        s.verif_id_counter()
    )
}

pub fn run() {
    let stdin = std::io::stdin();
    let mut store: Option<PendingEvents> = Some(PendingEvents::new());
    for line in stdin.lock().lines() {
        let line = line.unwrap();
        let ws: Vec<&str> = line.split_whitespace().collect();
        if ws.is_empty() {
            continue;
        }
        match ws[0] {
            "begin" => {
                store = Some(PendingEvents::new());
                println!("{}", line.trim());
                continue;
            }
            "end" => {
                println!("end");
                continue;
            }
            "variant" => continue,
            _ => {}
        }
        let Some(mut s) = store.take() else {
            println!("M skipped");
            continue;
        };
        let res = catch_unwind(AssertUnwindSafe(|| {
            let out = match ws[0] {
                "pm" => format!("id={}", s.push(msg_event(&ws[1..]))),
                "pt" => format!("id={}", s.push(timer_event(&ws[1..]))),
                "rm" => format!(
                    "id={}",
                    s.verif_push_with_fixed_id(msg_event(&ws[2..]), ws[1].parse().unwrap())
                ),
                "rt" => format!(
                    "id={}",
                    s.verif_push_with_fixed_id(timer_event(&ws[2..]), ws[1].parse().unwrap())
                ),
                "pop" => format!("ev={}", show_ev(&s.pop(ws[1].parse().unwrap()))),
                "ct" => {
                    s.cancel_timer(ws[1].to_string(), ws[2].to_string());
                    "ok".to_string()
                }
                "cp" => {
                    let evs = s.verif_cancel_proc_events(&ws[1].to_string());
                    format!("evs={}", show_list(&evs.iter().map(show_ev).collect::<Vec<_>>()))
                }
                _ => "bad-op".to_string(),
            };
            (s, out)
        }));
        match res {
            Ok((s2, out)) => {
                println!("M {} {}", out, obs_store(&s2));
                store = Some(s2);
            }
            Err(_) => {
                println!("M panic");
                store = None;
            }
        }
    }
}
