//! Canonical text renderings shared with the Lean driver (`Driver/Common.lean`).
use anysystem::logger::LogEntry;
use anysystem::mc::network::DeliveryOptions;
use anysystem::mc::McEvent;
use anysystem::Message;

use crate::script::units_of;

pub fn show_list(items: &[String]) -> String {
    format!("[{}]", items.join(","))
}

pub fn show_msg(m: &Message) -> String {
    format!("{},={}", m.tip, m.data)
}

pub fn show_opts(o: &DeliveryOptions) -> String {
    match o {
        DeliveryOptions::NoFailures(d) => format!("N{}", units_of(d.into_inner())),
        DeliveryOptions::PossibleFailures {
            can_be_dropped,
            max_dupl_count,
            can_be_corrupted,
        } => format!(
            "F{}{}{}",
            if *can_be_dropped { 1 } else { 0 },
            max_dupl_count,
            if *can_be_corrupted { 1 } else { 0 }
        ),
    }
}

pub fn show_ev(e: &McEvent) -> String {
    match e {
        McEvent::MessageReceived { msg, src, dst, options } => {
            format!("M({},{},{},{})", show_msg(msg), src, dst, show_opts(options))
        }
        McEvent::TimerFired {
            proc,
            timer,
            timer_delay,
        } => format!("T({},{},{})", proc, timer, units_of(timer_delay.into_inner())),
        McEvent::TimerCancelled { proc, timer } => format!("TC({},{})", proc, timer),
        McEvent::MessageDropped {
            msg,
            src,
            dst,
            receive_event_id,
        } => format!(
            "D({},{},{},{})",
            show_msg(msg),
            src,
            dst,
            match receive_event_id {
                Some(i) => i.to_string(),
                None => "-".to_string(),
            }
        ),
        McEvent::MessageDuplicated {
            msg,
            src,
            dst,
            receive_event_id,
        } => format!("DU({},{},{},{})", show_msg(msg), src, dst, receive_event_id),
        McEvent::MessageCorrupted {
            msg,
            corrupted_msg,
            src,
            dst,
            receive_event_id,
        } => format!(
            "CO({},{},{},{},{})",
            show_msg(msg),
            show_msg(corrupted_msg),
            src,
            dst,
            receive_event_id
        ),
    }
}

/// model-checking trace entries (simulation entries are rendered by `sim.rs`)
pub fn show_log(e: &LogEntry) -> String {
    match e {
        LogEntry::McStarted {} => "started".to_string(),
        LogEntry::McLocalMessageSent { msg, proc } => format!("lsent({},{})", show_msg(msg), proc),
        LogEntry::McLocalMessageReceived { msg, proc } => format!("lrecv({},{})", show_msg(msg), proc),
        LogEntry::McMessageSent { msg, src, dst } => format!("sent({},{},{})", show_msg(msg), src, dst),
        LogEntry::McMessageReceived { msg, src, dst } => format!("recv({},{},{})", show_msg(msg), src, dst),
        LogEntry::McMessageDropped { msg, src, dst } => format!("drop({},{},{})", show_msg(msg), src, dst),
        LogEntry::McMessageCorrupted {
            msg,
            corrupted_msg,
            src,
            dst,
        } => format!("corr({},{},{},{})", show_msg(msg), show_msg(corrupted_msg), src, dst),
        LogEntry::McMessageDuplicated { msg, src, dst } => format!("dupl({},{},{})", show_msg(msg), src, dst),
        LogEntry::McTimerSet { proc, timer } => format!("tset({},{})", proc, timer),
        LogEntry::McTimerFired { proc, timer } => format!("tfired({},{})", proc, timer),
        LogEntry::McTimerCancelled { proc, timer } => format!("tcancel({},{})", proc, timer),
        LogEntry::McNodeCrashed { node } => format!("crashed({})", node),
        LogEntry::McNetworkReset {} => "netreset".to_string(),
        LogEntry::McNetworkPartition { .. } => "partition".to_string(),
        _ => "sim".to_string(),
    }
}
