"""Python twin of the script process (`harness/src/script.rs`, `lean/Anysystem/Model/Prog.lean`).

`ScriptProc` overrides get_state/set_state with the canonical `st|h1.h2` string, so it is state-for-state
comparable with the Rust script process; `ScriptProcDefault` keeps the library's default (pickle of every
attribute) and additionally mutates list / nested / lazily created attributes, to exercise save/restore and
deepcopy."""
import json
import random
import struct
from anysystem import Context, Message, Process


def _delay(tok):
    """a delay token: integer = half units, x<hex> = the bit pattern of the double"""
    if tok.startswith("x"):
        return struct.unpack(">d", bytes.fromhex(tok[1:]))[0]
    return int(tok) * 0.5


def trig_code(trig):
    kind = {"L": 0, "M": 1}.get(trig[0], 2)
    return kind * 1000 + int(trig[3:])


class ScriptProc(Process):
    def __init__(self, rules_json, record):
        self.rules = json.loads(rules_json)
        self.record = record
        self.st = 0
        self.hist = []

    def _mutate(self, trig):
        pass

    def _mk(self, holder, tip, data):
        """the message object handed to ctx.send / ctx.send_local"""
        return Message(tip, data)

    def _react(self, trig, data, ctx):
        holder = [None]
        if self.record:
            self.hist.append(trig_code(trig))
        self._mutate(trig)
        rule = None
        for r in self.rules:
            if r[0] == self.st and r[1] == trig:
                rule = r
                break
        if rule is None:
            return
        self.st = rule[2]
        for a in rule[3]:
            parts = a.split(":", 3)

            def dat(tok):
                return data if tok == "$" else json.loads(tok[1:])
            if parts[0] == "S":
                ctx.send(self._mk(holder, parts[1], dat(parts[2])), parts[3])
            elif parts[0] == "L":
                ctx.send_local(self._mk(holder, parts[1], dat(parts[2])))
            elif parts[0] == "T":
                ctx.set_timer(parts[1], _delay(parts[2]))
            elif parts[0] == "O":
                ctx.set_timer_once(parts[1], _delay(parts[2]))
            elif parts[0] == "C":
                ctx.cancel_timer(parts[1])
            elif parts[0] == "K":
                # the clock the framework passed to this handler, as the bit pattern of the double
                ctx.send_local(self._mk(holder, parts[1], struct.pack(">d", ctx.time()).hex()))
            elif parts[0] == "X":
                raise RuntimeError("scripted failure")

    @staticmethod
    def _scribble(msg):
        # a handler may modify the message object it was handed (it is the handler's own copy): nobody else may ever see that
        if isinstance(msg._data, list):
            msg._data.append(0)
        elif isinstance(msg._data, dict):
            msg["k"] = 1

    def on_message(self, msg, sender, ctx):
        self._react("M:" + msg.type, msg._data, ctx)
        self._scribble(msg)

    def on_local_message(self, msg, ctx):
        self._react("L:" + msg.type, msg._data, ctx)
        self._scribble(msg)

    def on_timer(self, timer_name, ctx):
        self._react("T:" + timer_name, None, ctx)

    def get_state(self):
        return "%d|%s" % (self.st, ".".join(str(x) for x in self.hist))

    def set_state(self, state_encoded):
        a, b = state_encoded.split("|")
        self.st = int(a)
        self.hist = [int(x) for x in b.split(".")] if b else []


class ScriptProcDefault(ScriptProc):
    """default pickle-based state; extra attributes of the kinds that break shallow copies and naive restores"""

    def __init__(self, rules_json, record):
        super().__init__(rules_json, record)
        self.bag = []                 # list mutated in place
        self.nested = {"k": [0]}      # nested container

    def _mutate(self, trig):
        self.bag.append(trig)
        self.nested["k"][0] += 1
        if trig.startswith("T:"):
            self.lazy = getattr(self, "lazy", 0) + 1   # attribute that does not exist in earlier states

    def _mk(self, holder, tip, data):
        # one Message object per handler call, modified between the sends (stamping a field, forwarding a changed copy):
        # every send must relay the content the object has at that moment
        m = holder[0]
        if m is None:
            m = holder[0] = Message(tip, json.loads(json.dumps(data)))   # own copy: `data` may be the trigger's payload
        elif isinstance(m._data, dict) and isinstance(data, dict):
            m._type = tip
            for k in list(m._data):
                m.remove(k)
            for k, x in json.loads(json.dumps(data)).items():
                m[k] = x
        else:
            m._type = tip
            m._data = json.loads(json.dumps(data))
        return m

    get_state = Process.get_state
    set_state = Process.set_state


class ScriptProcShared(ScriptProc):
    """custom (partial) state as ScriptProc, plus a mutable attribute that is *not* part of the state and is reported with every
    local message handled: if a copy made for model checking shared it with the original, the original's reports would change"""

    def __init__(self, rules_json, record):
        super().__init__(rules_json, record)
        self.seen = []

    def _mutate(self, trig):
        self.seen.append(trig)

    def on_local_message(self, msg, ctx):
        super().on_local_message(msg, ctx)
        ctx.send_local(Message("seen", len(self.seen)))


class ScriptProcRandom(ScriptProc):
    """draws from Python's `random` module (seeded by PyProcessFactory.build) in the constructor and in every handler, and
    reports both with every local message handled: same seed, same values, in one OS process and across OS processes"""

    def __init__(self, rules_json, record):
        super().__init__(rules_json, record)
        self.ticket = random.randrange(1 << 30)

    def on_local_message(self, msg, ctx):
        seen = json.dumps(msg._data)      # the payload as it was handed over
        super().on_local_message(msg, ctx)
        ctx.send_local(Message("rnd", [self.ticket, random.randrange(1 << 30), seen]))

    def on_message(self, msg, sender, ctx):
        seen = json.dumps(msg._data)
        super().on_message(msg, sender, ctx)
        ctx.send_local(Message("got", [sender, seen]))


class ScriptProcOrder(ScriptProcDefault):
    """default pickle state with a dict whose *insertion order* matters: the order in which the kinds of triggers were first seen;
    it is reported after every message handled.  Two histories that saw the same triggers in different orders are different
    states with different futures."""

    def __init__(self, rules_json, record):
        super().__init__(rules_json, record)
        self.order = {}

    def _mutate(self, trig):
        super()._mutate(trig)
        self.order.setdefault(trig, True)

    def on_message(self, msg, sender, ctx):
        super().on_message(msg, sender, ctx)
        ctx.send_local(Message("ord", list(self.order)))

    def on_local_message(self, msg, ctx):
        super().on_local_message(msg, ctx)
        ctx.send_local(Message("ord", list(self.order)))


class ScriptProcUnpicklable(ScriptProcDefault):
    """default pickle state, with an attribute `pickle` cannot serialise (a lambda): saving the state raises, and the framework has
    to surface that as an error of the process — silently leaving the attribute out would lose it at the first restore"""

    def __init__(self, rules_json, record):
        super().__init__(rules_json, record)
        self.fn = lambda x: x + 1

    def _mutate(self, trig):
        super()._mutate(trig)
        self.nested["k"][0] = self.fn(self.nested["k"][0])


class ScriptProcNegative(ScriptProc):
    """asks for timers with a NEGATIVE delay (set_timer for `T:` actions, set_timer_once for `O:` actions): the library documents
    that this raises ValueError, and an exception of a handler has to surface as an error of the process"""

    def _react(self, trig, data, ctx):
        for r in self.rules:
            if r[0] == self.st and r[1] == trig:
                for a in r[3]:
                    parts = a.split(":", 3)
                    if parts[0] == "T":
                        ctx.set_timer(parts[1], -0.5 * (int(parts[2]) + 1))
                    elif parts[0] == "O":
                        ctx.set_timer_once(parts[1], -0.5 * (int(parts[2]) + 1))
                break
        super()._react(trig, data, ctx)
